"""C23 generator: random well-typed llvm-dialect functions (programs of props.c23_ir) and inputs.

Every generated program is valid in the MLIR sense: operands dominate their uses, branch operands
match the block argument types, the entry block has no predecessor, loops terminate (a counter that
strictly decreases guards every back edge).  What is *not* guaranteed is that an input is free of
poison/UB (flags, division, shifts, out-of-bounds accesses are generated on purpose); the reference
semantics decides that per input.
"""
from __future__ import annotations

import random
import struct
from typing import Any

from props.c23_ir import BINOPS, EXACT_BINOPS, FBINOPS, FLOAT_FORMATS, OVF_BINOPS, bits_f64, f64_bits, fbits, fval, \
    is_int, round32, size_of, width

INT_TYS = ["i1", "i8", "i16", "i32", "i64"]
FLOAT_TYS = ["f32", "f64"]


def int_boundary(w: int) -> list[int]:
    M = (1 << w) - 1
    vals = {0, 1, M, 1 << (w - 1), (1 << (w - 1)) - 1, 2 & M, 3 & M, (w - 1) & M, w & M, (M - 1) & M, 0x55555555_55555555 & M}
    return sorted(vals)


F_BOUNDARY = [0.0, -0.0, 1.0, -1.0, 0.5, 2.0, 3.0, -2.5, float("inf"), float("-inf"), float("nan"), float("nan"), -float("nan"), 1e-45, 3.4028234663852886e38,
              16777216.0, 16777217.0, 0.1, 1e30, -1e-30, 4.9e-324, 1.7976931348623157e308]


def rand_int_bits(rng: random.Random, w: int) -> int:
    r = rng.random()
    if r < 0.55:
        return rng.choice(int_boundary(w))
    if r < 0.75:
        return rng.randrange(0, min(1 << w, 16))
    return rng.getrandbits(w)


def rand_float_bits(rng: random.Random, ty: str) -> int:
    """bit pattern in the type's own precision"""
    r = rng.random()
    if r < 0.6:
        x = rng.choice(F_BOUNDARY)
    elif r < 0.8:
        x = float(rng.randint(-20, 20)) / rng.choice([1, 2, 4, 3])
    else:
        if ty == "f32":
            return rng.getrandbits(32)
        return rng.getrandbits(FLOAT_FORMATS[ty][0])
    if ty in ("f16", "bf16"):
        return fbits(ty, x)
    if ty == "f32":
        try:
            return struct.unpack("<I", struct.pack("<f", x))[0]
        except OverflowError:
            return 0x7F800000
    return f64_bits(x)


class Gen:
    def __init__(self, rng: random.Random, size: int = 1, float_tys: list[str] | None = None,
                 sig_tys: list[str] | None = None):
        """`float_tys`: the float formats values may have (default: the two the Lean model knows);
        `sig_tys`: types of the function's parameters and result (default: all).  With the defaults the
        random draws are exactly those of the original generator."""
        self.rng = rng
        self.size = size
        self.float_tys = list(float_tys or FLOAT_TYS)
        self.sig_tys = sig_tys
        self.wide = self.float_tys != FLOAT_TYS
        self.next_id = 0
        self.blocks: list[dict[str, Any]] = []

    def fresh(self) -> int:
        self.next_id += 1
        return self.next_id - 1

    # -- CFG --------------------------------------------------------------------------------
    def make_cfg(self) -> None:
        rng = self.rng
        n = rng.choice([1, 1, 2, 3, 3, 4, 4, 5, 6]) if self.size else 1
        children: list[list[int]] = [[] for _ in range(n)]
        for j in range(1, n):
            cands = [i for i in range(j) if len(children[i]) < 2]
            children[rng.choice(cands)].append(j)
        succ: list[list[int]] = []
        for i in range(n):
            c = list(children[i])
            later = list(range(i + 1, n))
            if len(c) == 0:
                if later and rng.random() < 0.6:
                    c = [rng.choice(later)] if rng.random() < 0.5 else [rng.choice(later), rng.choice(later)]
            elif len(c) == 1:
                r = rng.random()
                if r < 0.45 and later:
                    c.append(rng.choice(later))
                elif r < 0.6:
                    c.append(c[0])          # cond_br with both edges to the same block
            if len(c) == 2 and rng.random() < 0.5:
                c.reverse()
            succ.append(c)
        self.succ = succ
        self.n = n
        # dominators (forward edges only; a back edge l -> h is added only where h dominates l)
        preds: list[list[int]] = [[] for _ in range(n)]
        for i, cs in enumerate(succ):
            for c in cs:
                if i not in preds[c]:
                    preds[c].append(i)
        dom = [set(range(n)) for _ in range(n)]
        dom[0] = {0}
        changed = True
        while changed:
            changed = False
            for b in range(1, n):
                new = set.intersection(*[dom[p] for p in preds[b]]) | {b} if preds[b] else {b}
                if new != dom[b]:
                    dom[b] = new
                    changed = True
        self.dom = dom
        # one optional loop: latch l with a single forward successor, header h != 0 dominating l
        self.loop = None
        if n >= 2 and rng.random() < 0.5:
            cands = [(h, l) for l in range(1, n) for h in dom[l] if h != 0 and len(succ[l]) == 1]
            if cands:
                self.loop = rng.choice(cands)

    # -- values -----------------------------------------------------------------------------
    def const(self, ops: list, ty: str, bits: int | None = None) -> int:
        rng = self.rng
        r = self.fresh()
        if is_int(ty):
            w = width(ty)
            b = rand_int_bits(rng, w) if bits is None else bits
            # IntegerAttr of a signless type accepts both representatives of a bit pattern
            v = b - (1 << w) if (b >> (w - 1)) & 1 and rng.random() < 0.5 else b
            ops.append(["const", r, ty, v])
        else:
            b = rand_float_bits(rng, ty) if bits is None else bits
            if ty == "f32":
                x = struct.unpack("<f", struct.pack("<I", b))[0]
                if x == x and rng.random() < 0.15:
                    x = x * 1.0000001 if abs(x) < 1e30 else x   # a double that is not a float32: rounded on emission
            elif ty == "f64":
                x = struct.unpack("<d", struct.pack("<Q", b))[0]
            else:
                x = fval(ty, b)
            ops.append(["fconst", r, ty, f64_bits(x)])
        return r

    def pick(self, ops: list, avail: dict[str, list[int]], ty: str, p_const: float = 0.2) -> int:
        vs = avail.get(ty, [])
        if not vs or self.rng.random() < p_const:
            r = self.const(ops, ty)
            avail.setdefault(ty, []).append(r)
            return r
        return self.rng.choice(vs[-8:] if self.rng.random() < 0.6 else vs)

    def gen_op(self, ops: list, avail: dict[str, list[int]], ptrs: list[dict]) -> None:
        rng = self.rng
        kinds = ["bin"] * 8 + ["icmp"] * 3 + ["cast"] * 4 + ["select"] * 2 + ["fbin"] * 3 + ["fcmp"] * 2 + ["fneg"] + \
                ["alloca"] + ["mem"] * (4 if ptrs else 0)
        k = rng.choice(kinds)
        if k == "bin":
            ty = rng.choice(INT_TYS if rng.random() < 0.8 else ["i1"] + INT_TYS[2:])
            w = width(ty)
            kk = rng.choice(BINOPS)
            a = self.pick(ops, avail, ty)
            if kk in ("udiv", "sdiv", "urem", "srem") and rng.random() < 0.6:
                b = self.const(ops, ty, rng.choice([x for x in int_boundary(w) if x != 0]))
            elif kk in ("shl", "lshr", "ashr") and rng.random() < 0.7:
                b = self.const(ops, ty, rng.randrange(0, w))
            else:
                b = self.pick(ops, avail, ty)
            ovf = rng.choice([0, 0, 0, 1, 2, 3]) if kk in OVF_BINOPS else 0
            ex = int(kk in EXACT_BINOPS and rng.random() < 0.3)
            dj = int(kk == "or" and rng.random() < 0.3)
            r = self.fresh()
            ops.append(["bin", kk, r, ty, a, b, ovf, ex, dj])
            avail.setdefault(ty, []).append(r)
        elif k == "icmp":
            ty = rng.choice(INT_TYS)
            a, b = self.pick(ops, avail, ty), self.pick(ops, avail, ty)
            r = self.fresh()
            ops.append(["icmp", r, rng.randrange(10), ty, a, b])
            avail.setdefault("i1", []).append(r)
        elif k == "fbin":
            ty = rng.choice(self.float_tys)
            a, b = self.pick(ops, avail, ty), self.pick(ops, avail, ty)
            r = self.fresh()
            ops.append(["fbin", rng.choice(FBINOPS[:4] * 3 + FBINOPS[4:]), r, ty, a, b])
            avail.setdefault(ty, []).append(r)
        elif k == "fcmp":
            ty = rng.choice(self.float_tys)
            a = self.pick(ops, avail, ty, 0.1)
            b = a if rng.random() < 0.2 else self.pick(ops, avail, ty)
            r = self.fresh()
            ops.append(["fcmp", r, rng.choice(list(range(1, 15)) * 6 + [0, 15]), ty, a, b])
            avail.setdefault("i1", []).append(r)
        elif k == "fneg":
            ty = rng.choice(self.float_tys)
            a = self.pick(ops, avail, ty)
            r = self.fresh()
            ops.append(["fneg", r, ty, a])
            avail.setdefault(ty, []).append(r)
        elif k == "cast":
            kk = rng.choice(["trunc", "trunc", "zext", "zext", "sext", "sext", "bitcast", "sitofp", "sitofp", "fpext"])
            if kk == "trunc":
                ft = rng.choice(INT_TYS[1:])
                tt = rng.choice([t for t in INT_TYS if width(t) < width(ft)])
            elif kk in ("zext", "sext"):
                ft = rng.choice(INT_TYS[:-1])
                tt = rng.choice([t for t in INT_TYS if width(t) > width(ft)])
            elif kk == "bitcast" and self.wide:
                f = rng.choice(self.float_tys)
                i = "i%d" % FLOAT_FORMATS[f][0]
                ft, tt = (i, f) if rng.random() < 0.5 else (f, i)
            elif kk == "bitcast":
                ft, tt = rng.choice([("i32", "f32"), ("f32", "i32"), ("i64", "f64"), ("f64", "i64")])
            elif kk == "sitofp":
                ft, tt = rng.choice(INT_TYS), rng.choice(self.float_tys)
                if tt in ("f16", "bf16"):   # (wider integers reach a 16-bit format through two roundings)
                    ft = rng.choice(["i1", "i8", "i16"])
            elif self.wide:   # fpext: to a format that holds every value of the source format, and is wider
                pairs = [(a, b) for a in self.float_tys for b in self.float_tys
                         if FLOAT_FORMATS[a][0] < FLOAT_FORMATS[b][0]]
                ft, tt = rng.choice(pairs) if pairs else ("f32", "f64")
            else:
                ft, tt = "f32", "f64"
            a = self.pick(ops, avail, ft)
            r = self.fresh()
            ovf = rng.choice([0, 0, 1, 2, 3]) if kk == "trunc" else 0
            nn = int(kk == "zext" and rng.random() < 0.3)
            ops.append(["cast", kk, r, ft, tt, a, ovf, nn])
            avail.setdefault(tt, []).append(r)
        elif k == "select":
            ty = rng.choice(INT_TYS + self.float_tys)
            c = self.pick(ops, avail, "i1", 0.05)
            a, b = self.pick(ops, avail, ty), self.pick(ops, avail, ty)
            r = self.fresh()
            ops.append(["select", r, ty, c, a, b])
            avail.setdefault(ty, []).append(r)
        elif k == "alloca":
            elem = rng.choice(INT_TYS + self.float_tys)
            n = rng.choice([1, 1, 2, 3, 4])
            st = rng.choice(["i32", "i64"])
            s = self.const(ops, st, n)
            r = self.fresh()
            ops.append(["alloca", r, elem, st, s])
            base = {"id": r, "elem": elem, "n": n, "idx": 0}
            ptrs.append(base)
            for i in range(n):   # initialise (most) elements so that loads are usually defined
                if rng.random() < 0.9:
                    p = base
                    if i:
                        g = self.fresh()
                        ops.append(["gep", g, elem, r, ["c", i], int(rng.random() < 0.5)])
                        p = {"id": g, "elem": elem, "n": n, "idx": i}
                        ptrs.append(p)
                    ops.append(["store", elem, self.pick(ops, avail, elem), p["id"]])
        else:
            p = rng.choice(ptrs)
            elem, n = p["elem"], p["n"]
            r = rng.random()
            if p["idx"] is None:
                r = max(r, 0.3)
            if r < 0.3:      # gep with a constant or a dynamic index
                g = self.fresh()
                if rng.random() < 0.6:
                    i = rng.choice(list(range(-p["idx"], n - p["idx"])) * 4 + [n - p["idx"], -p["idx"] - 1, n + 1])
                    ops.append(["gep", g, elem, p["id"], ["c", i], int(rng.random() < 0.5)])
                    ptrs.append({"id": g, "elem": elem, "n": n, "idx": p["idx"] + i})
                elif p["idx"] == 0:
                    it = rng.choice(["i32", "i64", "i8"])
                    v = self.pick(ops, avail, it)
                    nn = self.const(ops, it, n)
                    m = self.fresh()
                    ops.append(["bin", "urem", m, it, v, nn, 0, 0, 0])
                    ops.append(["gep", g, elem, p["id"], ["v", m, it], int(rng.random() < 0.5)])
                    ptrs.append({"id": g, "elem": elem, "n": n, "idx": None})
                else:
                    self.next_id -= 1
            elif r < 0.65:
                ty = elem
                if elem not in ("i1",) and rng.random() < 0.15 and p["idx"] is not None and not self.wide:   # narrower access (little endian)
                    ty = rng.choice([t for t in ["i8", "i16", "i32", "i64", "f32", "f64"] if size_of(t) <= size_of(elem)])
                v = self.fresh()
                ops.append(["load", v, ty, p["id"]])
                avail.setdefault(ty, []).append(v)
            else:
                ty = elem
                if elem not in ("i1",) and rng.random() < 0.15 and p["idx"] is not None and not self.wide:
                    ty = rng.choice([t for t in ["i8", "i16", "i32", "i64", "f32", "f64"] if size_of(t) <= size_of(elem)])
                ops.append(["store", ty, self.pick(ops, avail, ty), p["id"]])

    def observe(self, ops: list, avail: dict[str, list[int]], ty: str) -> int:
        """a value of type `ty` that depends on several of the values computed so far (no new poison)"""
        rng = self.rng
        v = self.pick(ops, avail, ty, 0.05)
        for _ in range(rng.choice([0, 1, 2, 2, 3, 4])):
            cands = [t for t, vs in avail.items() if vs and t != "ptr"]
            if not cands:
                break
            t = rng.choice(cands)
            x = rng.choice(avail[t][-6:])
            r = self.fresh()
            if t == "i1":
                ops.append(["select", r, ty, x, v, self.pick(ops, avail, ty, 0.3)])
            elif is_int(t) and is_int(ty):
                if width(t) != width(ty):
                    kk = "trunc" if width(t) > width(ty) else rng.choice(["zext", "sext"])
                    ops.append(["cast", kk, r, t, ty, x, 0, 0])
                    x, r = r, self.fresh()
                ops.append(["bin", rng.choice(["xor", "add", "sub"]), r, ty, v, x, 0, 0, 0])
            elif not is_int(t):
                c = r
                ops.append(["fcmp", c, rng.randrange(1, 15), t, x, x if rng.random() < 0.4 else self.pick(ops, avail, t)])
                r = self.fresh()
                ops.append(["select", r, ty, c, v, self.pick(ops, avail, ty, 0.3)])
            else:   # integer seen through a float result: compare it
                c = r
                ops.append(["icmp", c, rng.randrange(10), t, x, self.pick(ops, avail, t)])
                r = self.fresh()
                ops.append(["select", r, ty, c, v, self.pick(ops, avail, ty, 0.3)])
            avail.setdefault(ty, []).append(r)
            v = r
        return v

    # -- whole function -----------------------------------------------------------------------
    def function(self) -> list:
        rng = self.rng
        self.make_cfg()
        n, succ, dom = self.n, self.succ, self.dom
        tys = INT_TYS * 2 + self.float_tys
        sig = self.sig_tys or tys
        nparams = rng.randint(1, 4)
        argtys: list[list[str]] = [[rng.choice(sig) for _ in range(nparams)]]
        for _ in range(1, n):
            argtys.append([rng.choice(tys) for _ in range(rng.choice([0, 0, 1, 1, 2, 3]))])
        ctr_ty = None
        if self.loop:
            ctr_ty = rng.choice(["i8", "i32", "i64"])
            argtys[self.loop[0]] = [ctr_ty] + argtys[self.loop[0]]
        ret_ty = rng.choice(sig)
        args = [[[self.fresh(), t] for t in ts] for ts in argtys]
        avail_out: list[dict[str, list[int]]] = [dict() for _ in range(n)]
        ptrs_out: list[list[dict]] = [[] for _ in range(n)]
        out_blocks: list[list] = []
        for b in range(n):
            avail: dict[str, list[int]] = {}
            ptrs: list[dict] = []
            for d in sorted(dom[b] - {b}):
                for t, vs in avail_out[d].items():
                    avail.setdefault(t, []).extend(vs)
                ptrs.extend(ptrs_out[d])
            for i, t in args[b]:
                avail.setdefault(t, []).append(i)
            ops: list = []
            for _ in range(rng.choice([0, 1, 2, 3, 4, 6, 8]) if self.size else rng.randint(1, 3)):
                self.gen_op(ops, avail, ptrs)

            def edge(d: int, ctr: int | None = None) -> list:
                vals = []
                for j, (_i, t) in enumerate(args[d]):
                    if self.loop and d == self.loop[0] and j == 0:
                        vals.append(ctr if ctr is not None else self.const(ops, t, rng.choice([1, 1, 2, 3, 5])))
                    else:
                        vals.append(self.pick(ops, avail, t))
                return [d] + vals

            cs = succ[b]
            if self.loop and b == self.loop[1]:
                h = self.loop[0]
                ctr = args[h][0][0]
                one = self.const(ops, ctr_ty, 1)
                c2 = self.fresh()
                ops.append(["bin", "sub", c2, ctr_ty, ctr, one, rng.choice([0, 0, 1]), 0, 0])
                zero = self.const(ops, ctr_ty, 0)
                cc = self.fresh()
                ops.append(["icmp", cc, 4, ctr_ty, c2, zero])   # sgt
                back, fwd = edge(h, c2), edge(cs[0])
                term = ["condbr", cc, back, fwd] if rng.random() < 0.7 else None
                if term is None:
                    nc = self.fresh()
                    ops.append(["icmp", nc, 3, ctr_ty, c2, zero])   # sle
                    term = ["condbr", nc, fwd, back]
            elif len(cs) == 0:
                term = ["ret", ret_ty, self.observe(ops, avail, ret_ty)] if rng.random() < 0.97 else ["unreachable"]
            elif len(cs) == 1:
                term = ["br", edge(cs[0])]
            else:
                c = self.pick(ops, avail, "i1", 0.03)
                term = ["condbr", c, edge(cs[0]), edge(cs[1])]
            avail_out[b], ptrs_out[b] = avail, ptrs
            out_blocks.append(["block", ["args"] + args[b]] + ops + [term])
        prog = ["func", ["ret", ret_ty]] + out_blocks
        if n > 2 and rng.random() < 0.08:
            prog = permute_blocks(prog, rng)
        return prog


def permute_blocks(prog: list, rng: random.Random) -> list:
    """list the non-entry blocks in another order (uses may then precede definitions in list order)"""
    blocks = prog[2:]
    order = list(range(1, len(blocks)))
    rng.shuffle(order)
    order = [0] + order
    new_index = {old: new for new, old in enumerate(order)}

    def fix(t: list) -> list:
        if t[0] == "br":
            return ["br", [new_index[t[1][0]]] + t[1][1:]]
        if t[0] == "condbr":
            return ["condbr", t[1], [new_index[t[2][0]]] + t[2][1:], [new_index[t[3][0]]] + t[3][1:]]
        return t

    return prog[:2] + [blocks[o][:-1] + [fix(blocks[o][-1])] for o in order]


def gen_inputs(rng: random.Random, ptys: list[str], n: int) -> list[list[int]]:
    out = []
    for _ in range(n):
        out.append([rand_int_bits(rng, width(t)) if is_int(t) else rand_float_bits(rng, t) for t in ptys])
    return out
