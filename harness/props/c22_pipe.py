"""
C22 leg (B): generated func/arith/scf programs through the documented RISC-V pipeline, executed
after every stage on the independent RV32 machine (c22_rv) and compared with the source semantics.

Stages (each executed; the first one that disagrees with the source is blamed):
  S1 lowered    convert-func-to-riscv-func, convert-arith-to-riscv, convert-scf-to-riscv-scf,
                reconcile-unrealized-casts          (riscv SSA form; unallocated values = virtual registers)
  S2 allocated  + riscv-allocate-registers          (optionally with some values pinned to s0..s11 first)
  S3 pmov       + riscv-lower-parallel-mov
  S4 canon      + canonicalize
  S5 labels     + lower-riscv-scf-to-labels          (`-t riscv-asm` text → parsed)
  S6 asm        + riscv-prologue-epilogue-insertion  (`-t riscv-asm` text → parsed; the emitted function)
S1–S4 are run by a structured executor over the IR (riscv_scf.for executed exactly the way
lower-riscv-scf-to-labels spells it: mv iv,lb; bge; body; add iv,step; blt), S5/S6 by the program-counter
machine on the parsed assembler text.
"""
from __future__ import annotations

from typing import Any

from props import c22_rv as rv
from props.c22_snip import Namer
from vp import proggen

STAGES = [
    ("S1-lowered", ["convert-func-to-riscv-func", "convert-arith-to-riscv", "convert-scf-to-riscv-scf", "reconcile-unrealized-casts"]),
    ("S2-allocated", ["riscv-allocate-registers"]),
    ("S3-pmov", ["riscv-lower-parallel-mov"]),
    ("S4-canon", ["canonicalize"]),
    ("S5-labels", ["lower-riscv-scf-to-labels"]),
    ("S6-asm", ["riscv-prologue-epilogue-insertion"]),
]
ASM_STAGES = ("S5-labels", "S6-asm")
FINAL = "S6-asm"
STAGE_SITE = {
    "S1-lowered": "xdsl.backend.riscv.lowering",
    "S2-allocated": "xdsl.transforms.riscv_allocate_registers.RISCVAllocateRegistersPass",
    "S3-pmov": "xdsl.transforms.riscv_lower_parallel_mov.RISCVLowerParallelMovPass",
    "S4-canon": "xdsl.transforms.canonicalize.CanonicalizePass[riscv]",
    "S5-labels": "xdsl.backend.riscv.riscv_scf_to_asm.LowerRiscvScfForToLabelsPass",
    "S6-asm": "xdsl.backend.riscv.prologue_epilogue_insertion.PrologueEpilogueInsertion",
}

INT_OPS = ["addi", "subi", "muli", "andi", "ori", "xori", "shli", "shrsi", "shrui", "divsi", "remsi", "divui", "remui"]


class Gen(proggen.ProgGen):
    """func/arith/scf.for programs over i32 (the only width the arith lowering accepts)"""

    def __init__(self, rng: Any, cmpi: list[str] | None = None):
        cfg = proggen.Config(int_types=["i32"], float_types=[], int_ops=list(INT_OPS), float_ops=[], casts=[],
                             scf_if=False, scf_for=True, cf=False, calls=True, externs=False, select=False,
                             max_stmts=6, max_depth=1)
        if cmpi is not None:
            cfg.cmpi_preds = cmpi
        super().__init__(rng, cfg)

    def int_const(self, t: str) -> int:
        r = self.rng.random()
        if r < 0.35:
            return self.rng.choice([2047, 2048, -2048, -2049, 4096, 65536, 46341, -65536, 0x7FFFF800, 5000, -5000])
        return super().int_const(t)

    def program(self) -> dict[str, Any]:
        c = self.cfg
        self.n = 0
        self.nb = 0
        self.ext_sigs = {}
        self.helpers = []
        funcs: list[str] = []
        if c.calls and self.rng.random() < 0.08:
            funcs.append(self.helper())
        arg_tys = ["i32"] * self.rng.randint(1, 4)
        args = [f"%a{i}" for i in range(len(arg_tys))]
        pool: dict[str, list[str]] = {"i32": list(args)}
        lines: list[str] = []
        for _ in range(self.rng.randint(1, c.max_stmts)):
            if self.rng.random() < 0.12:  # x+x, x-x, x&x … : the *BySelf patterns
                a = self.rng.choice(pool["i32"])
                v = self.fresh()
                lines.append(f"  {v} = arith.{self.rng.choice(['addi', 'addi', 'subi', 'andi', 'ori', 'xori'])} {a}, {a} : i32")
                pool["i32"].append(v)
            else:
                self.stmt(pool, lines, "  ", 0)
        ret_tys = [("i1" if self.rng.random() < 0.07 else "i32") for _ in range(self.rng.randint(1, 2))]
        rets = []
        for t in ret_tys:
            vs = pool.get(t, [])
            rets.append(vs[-1] if vs and self.rng.random() < 0.6 else self.pick(pool, t, lines, "  "))
        sig = ", ".join(f"{a}: {t}" for a, t in zip(args, arg_tys))
        main = (f"func.func @main({sig}) -> ({', '.join(ret_tys)}) {{\n" + "\n".join(lines)
                + f"\n  func.return {', '.join(rets)} : {', '.join(ret_tys)}\n}}\n")
        funcs.append(main)
        return {"text": "builtin.module {\n" + "".join(funcs) + "}\n", "arg_types": arg_tys, "ret_types": ret_tys}


def cmpi_program(pred: str, swap: bool) -> dict[str, Any]:
    a, b = ("%a1", "%a0") if swap else ("%a0", "%a1")
    return {"text": "builtin.module {\nfunc.func @main(%a0: i32, %a1: i32) -> (i1) {\n"
                    f"  %v1 = arith.cmpi {pred}, {a}, {b} : i32\n  func.return %v1 : i1\n}}\n}}\n",
            "arg_types": ["i32", "i32"], "ret_types": ["i1"]}


def directed_programs() -> list[dict[str, Any]]:
    """fixed minimal programs that are re-examined on every run"""
    def prog(args: int, rets: list[str], body: str, ret: str) -> dict[str, Any]:
        sig = ", ".join(f"%a{i}: i32" for i in range(args))
        return {"text": f"builtin.module {{\nfunc.func @main({sig}) -> ({', '.join(rets)}) {{\n{body}\n  func.return {ret} : {', '.join(rets)}\n}}\n}}\n",
                "arg_types": ["i32"] * args, "ret_types": rets}
    loop = ("  %lb = arith.constant 0 : index\n  %ub = arith.constant 3 : index\n  %st = arith.constant 1 : index\n"
            "  %r, %s = scf.for %i = %lb to %ub step %st iter_args(%acc = %a0, %acc2 = %a1) -> (i32, i32) {\n"
            "    %n = arith.addi %acc, %acc2 : i32\n    %m = arith.muli %acc, %n : i32\n    scf.yield %n, %m : i32, i32\n  }")
    out = [
        # loop-carried value defined while the block argument is still needed (listed allocator finding)
        prog(2, ["i32", "i32"], loop, "%r, %s"),
        # immediates at the 12-bit boundary, constants that wrap
        prog(1, ["i32"], "  %c = arith.constant 2048 : i32\n  %v = arith.addi %a0, %c : i32", "%v"),
        prog(1, ["i32"], "  %c = arith.constant -2048 : i32\n  %v = arith.subi %a0, %c : i32", "%v"),
        prog(1, ["i32"], "  %c = arith.constant 2047 : i32\n  %v = arith.addi %a0, %c : i32", "%v"),
        prog(1, ["i32"], "  %c = arith.constant 65536 : i32\n  %d = arith.muli %c, %c : i32\n  %v = arith.addi %a0, %d : i32", "%v"),
        prog(1, ["i32"], "  %c = arith.constant 2147483647 : i32\n  %o = arith.constant 1 : i32\n  %d = arith.addi %c, %o : i32\n  %v = arith.xori %a0, %d : i32", "%v"),
        # x + x after register allocation
        prog(1, ["i32"], "  %v = arith.addi %a0, %a0 : i32\n  %w = arith.addi %v, %v : i32", "%w"),
        # and/xor with two zero constants
        prog(1, ["i32"], "  %c = arith.constant 0 : i32\n  %d = arith.andi %c, %c : i32\n  %e = arith.xori %c, %c : i32\n  %v = arith.addi %a0, %d : i32\n  %w = arith.addi %v, %e : i32", "%w"),
    ]
    # loops the allocator handles: accumulate, non-unit step, zero-trip, argument bounds
    for lb, ub, st in ((0, 3, 1), (1, 8, 3), (4, 4, 1), (5, 2, 1), (-2, 3, 2)):
        out.append(prog(2, ["i32"], f"  %lb = arith.constant {lb} : index\n  %ub = arith.constant {ub} : index\n  %st = arith.constant {st} : index\n"
                        "  %r = scf.for %i = %lb to %ub step %st iter_args(%acc = %a0) -> (i32) {\n"
                        "    %n = arith.addi %acc, %a1 : i32\n    %m = arith.muli %n, %n : i32\n    scf.yield %m : i32\n  }", "%r"))
    # every integer op of the arith lowering table, on two arguments and with a constant operand
    for op in INT_OPS:
        out.append(prog(2, ["i32"], f"  %v = arith.{op} %a0, %a1 : i32", "%v"))
        out.append(prog(2, ["i32"], f"  %c = arith.constant 3 : i32\n  %v = arith.{op} %a0, %c : i32\n  %w = arith.{op} %c, %a1 : i32\n  %x = arith.xori %v, %w : i32", "%x"))
    return out


BOUNDARY_PAIRS = [[-(1 << 31), (1 << 31) - 1], [(1 << 31) - 1, -(1 << 31)], [-1, 0], [0, -1], [5, 5], [-8, 1], [-8, 31], [7, 3],
                  [-7, 3], [7, -3], [-7, -3], [-(1 << 31), 1], [1, 31], [-1, 31], [123456789, 7], [-123456789, 7]]


# ------------------------------------------------------------------------------------------------
# running the real passes
# ------------------------------------------------------------------------------------------------

_PASSES: dict[str, Any] = {}


def get_pass(name: str) -> Any:
    if not _PASSES:
        from xdsl.transforms import get_all_passes

        _PASSES.update(get_all_passes())
    return _PASSES[name]()


def apply_passes(m: Any, names: list[str]) -> tuple[str, str, str] | None:
    """None on success, else (pass, exception class, message)"""
    from xdsl.context import Context

    ctx = Context()
    for n in names:
        try:
            get_pass(n)().apply(ctx, m)
            m.verify()
        except Exception as e:  # noqa: BLE001
            return (n, type(e).__name__, str(e).split("\n")[0][:160])
    return None


def asm_text(m: Any) -> str:
    from xdsl.dialects.riscv import riscv_code

    return riscv_code(m)


def pin_s_registers(m: Any, rng: Any, p: float) -> int:
    """give some not loop-carried, unallocated integer results a callee-saved register each (distinct
    registers, so no interference is introduced); returns the number of pinned values"""
    from xdsl.dialects import riscv, riscv_scf
    from xdsl.rewriter import Rewriter

    free = [f"s{i}" for i in range(12)]
    rng.shuffle(free)
    n = 0
    for op in list(m.walk()):
        if not free:
            break
        if not isinstance(op, riscv.RISCVInstruction) or len(op.results) != 1:
            continue
        r = op.results[0]
        if not isinstance(r.type, riscv.IntRegisterType) or r.type.is_allocated:
            continue
        if any(isinstance(u.operation, (riscv_scf.ForOp, riscv_scf.YieldOp, riscv.ParallelMovOp)) for u in r.uses):
            continue
        if isinstance(op, riscv.MVOp) or rng.random() >= p:
            continue
        Rewriter.replace_value_with_new_type(r, riscv.IntRegisterType.from_name(free.pop()))
        n += 1
    return n


# ------------------------------------------------------------------------------------------------
# structured executor over riscv IR (stages S1..S4)
# ------------------------------------------------------------------------------------------------

class IRUnsupported(Exception):
    pass


def ins_of(op: Any, nm: Namer) -> tuple[str, list[Any]]:
    """(mnemonic, args) of one riscv instruction op; registers named by `nm`"""
    from xdsl.dialects import riscv
    from xdsl.dialects.builtin import IntegerAttr
    from xdsl.ir import SSAValue

    if isinstance(op, riscv.LwOp):
        return ("lw", [nm.reg(op.rd), nm.reg(op.rs1), op.immediate.value.data])
    if isinstance(op, riscv.SwOp):
        return ("sw", [nm.reg(op.rs2), nm.reg(op.rs1), op.immediate.value.data])
    args: list[Any] = []
    for a in op.assembly_line_args():
        if a is None:
            continue
        if isinstance(a, SSAValue):
            args.append(nm.reg(a))
        elif isinstance(a, IntegerAttr):
            args.append(a.value.data)
        else:
            args.append("?" + str(a))
    return (op.assembly_instruction_name(), args)


class IRExec:
    def __init__(self, module: Any, mach: rv.Machine, fuel: int = 200000):
        from xdsl.dialects import riscv_func

        self.m = mach
        self.nm = Namer()
        self.fuel = fuel
        self.funcs = {f.sym_name.data: f for f in module.walk() if isinstance(f, riscv_func.FuncOp)}

    def ins_of(self, op: Any) -> tuple[str, list[Any]]:
        return ins_of(op, self.nm)

    def call(self, name: str, depth: int = 0) -> None:
        if name not in self.funcs or depth > 20:
            raise IRUnsupported(f"call of {name}")
        self.block(self.funcs[name].body.blocks.first, depth)

    def tick(self) -> None:
        self.m.steps += 1
        if self.m.steps > self.fuel:
            raise rv.Trap("fuel")

    def block(self, blk: Any, depth: int) -> Any:
        from xdsl.dialects import riscv, riscv_func, riscv_scf
        from xdsl.dialects.builtin import IntegerAttr
        from xdsl.dialects.riscv.abstract_ops import GetAnyRegisterOperation

        g, s, reg = self.m.get, self.m.set, self.nm.reg
        for op in blk.ops:
            self.tick()
            if isinstance(op, riscv_func.ReturnOp):
                return None
            if isinstance(op, riscv_scf.YieldOp):
                return op
            if isinstance(op, GetAnyRegisterOperation) or isinstance(op, (riscv.LabelOp, riscv.CommentOp)):
                continue
            if isinstance(op, riscv.ParallelMovOp):
                vals = [g(reg(x)) for x in op.inputs]
                for d, v in zip(op.outputs, vals):
                    s(reg(d), v)
                continue
            if isinstance(op, riscv_func.CallOp):
                self.call(op.callee.string_value(), depth + 1)
                continue
            if isinstance(op, riscv_scf.ForOp):
                body = op.body.block
                iv = reg(body.args[0])
                s(iv, g(reg(op.lb)))
                vals = [g(reg(x)) for x in op.iter_args]
                for a, v in zip(body.args[1:], vals):
                    s(reg(a), v)
                if rv.s32(g(iv)) < rv.s32(g(reg(op.ub))):
                    while True:
                        y = self.block(body, depth)
                        if y is None:
                            raise IRUnsupported("loop body without yield")
                        vals = [g(reg(x)) for x in y.operands]
                        for a, v in zip(body.args[1:], vals):
                            s(reg(a), v)
                        step = op.step.value.data if isinstance(op.step, IntegerAttr) else g(reg(op.step))
                        s(iv, g(iv) + step)
                        self.tick()
                        if not rv.s32(g(iv)) < rv.s32(g(reg(op.ub))):
                            break
                vals = [g(reg(a)) for a in body.args[1:]]
                for r, v in zip(op.results, vals):
                    s(reg(r), v)
                continue
            if isinstance(op, riscv.RISCVInstruction):
                self.m.exec1(self.ins_of(op), 0)
                continue
            raise IRUnsupported(op.name)
        return None


def run_ir(module: Any, regs: dict[str, int], nret: int) -> tuple[Any, ...]:
    mach = rv.Machine([], regs)
    ex = IRExec(module, mach)
    try:
        ex.call("main")
    except rv.Trap as e:
        return ("trap", str(e))
    return ("ok", [mach.get(f"a{i}") for i in range(nret)], {r: mach.get(r) for r in rv.CALLEE_SAVED}, ex.nm.n)


def run_asm(prog: list[tuple[str, list[Any]]], regs: dict[str, int], nret: int) -> tuple[Any, ...]:
    mach = rv.Machine(prog, regs)
    try:
        mach.call("main")
    except rv.Trap as e:
        return ("trap", str(e))
    return ("ok", [mach.get(f"a{i}") for i in range(nret)], {r: mach.get(r) for r in rv.CALLEE_SAVED})


def entry_regs(rng: Any, vec: list[int]) -> dict[str, int]:
    regs = {f"a{k}": v & rv.M32 for k, v in enumerate(vec)}
    regs["sp"] = rv.SP0
    for k in range(12):
        regs[f"s{k}"] = rng.getrandbits(32)
    for k in range(7):
        regs[f"t{k}"] = rng.getrandbits(32)
    for k in range(len(vec), 8):
        regs[f"a{k}"] = rng.getrandbits(32)
    return regs


def want_from_sem(line: str, ret_types: list[str]) -> list[int] | None:
    """`ok [i32:5,i1:-1] effects []` → register images (i1 true = 1)"""
    if not line.startswith("ok ["):
        return None
    body = line[4:].split("]")[0]
    out = []
    for item, t in zip(body.split(","), ret_types):
        v = int(item.split(":")[1])
        out.append((v & 1) if t == "i1" else (v & rv.M32))
    return out
