"""
C22 leg (B): generated func/arith/scf programs through the documented RISC-V pipeline, executed
after every stage on the independent RV32 machine (c22_rv) and compared with the source semantics.

Stages (each executed; the first one that disagrees with the source is blamed):
  S1 lowered    convert-func-to-riscv-func, convert-arith-to-riscv, convert-scf-to-riscv-scf,
                reconcile-unrealized-casts          (riscv SSA form; unallocated values = virtual registers)
  S2 allocated  + riscv-allocate-registers          (optionally with some values pinned to s0..s11 first)
  S3 pmov       + riscv-lower-parallel-mov
  S4 canon      + canonicalize
  S5 labels     + lower-riscv-scf-to-labels          (`-t riscv-asm` text → parsed)
  S6 asm        + riscv-prologue-epilogue-insertion  (`-t riscv-asm` text → parsed; the emitted function)
Second path from S2 (the other documented way out of riscv_scf): C3 convert-riscv-scf-to-riscv-cf,
C4 canonicalize (ElideConstantBranches folds the constant loop guards), C5 riscv-lower-parallel-mov +
prologue/epilogue → assembler text.  C3/C4 run on the IR executor (basic blocks, riscv_cf terminators).
Pass-order family (the statement lists the passes, not one order; every order below is accepted by the passes):
  E  from S1: canonicalize before register allocation (E1; SSA form executed)
  P  from S4: riscv-prologue-epilogue-insertion while riscv_scf loops are still structured (P5, IR executed incl. the
     frame loads/stores; callee-saved registers compared), then lower-riscv-scf-to-labels → assembler (P6)
  Q  from S2: prologue/epilogue first (Q3), then convert-riscv-scf-to-riscv-cf, canonicalize, parallel-mov → assembler (Q4)
Float programs (f64/f32 arith with per-operation fast-math flags) take the same stages; F/D registers are 64-bit
patterns, fused multiply-add rounds once, results are compared with the set of results the source's fast-math
flags admit (strict evaluation, or contraction of a product into a sum/difference where BOTH carry `contract`).
S1–S4 are run by a structured executor over the IR (riscv_scf.for executed exactly the way
lower-riscv-scf-to-labels spells it: mv iv,lb; bge; body; add iv,step; blt), S5/S6 by the program-counter
machine on the parsed assembler text.
"""
from __future__ import annotations

from typing import Any

from props import c22_rv as rv
from props.c22_snip import Namer
from vp import proggen

STAGES = [
    ("S1-lowered", ["convert-func-to-riscv-func", "convert-arith-to-riscv", "convert-scf-to-riscv-scf", "reconcile-unrealized-casts"]),
    ("S2-allocated", ["riscv-allocate-registers"]),
    ("S3-pmov", ["riscv-lower-parallel-mov"]),
    ("S4-canon", ["canonicalize"]),
    ("S5-labels", ["lower-riscv-scf-to-labels"]),
    ("S6-asm", ["riscv-prologue-epilogue-insertion"]),
]
ASM_STAGES = ("S5-labels", "S6-asm", "C5-cfasm", "P6-asm", "Q4-cfasm")
FINAL = "S6-asm"
PROLOGUE = "riscv-prologue-epilogue-insertion"
# second way out of the structured loops (taken from the allocated module S2): basic blocks + riscv_cf
CF_STAGES = [
    ("C3-cf", ["convert-riscv-scf-to-riscv-cf"]),
    ("C4-cfcanon", ["canonicalize"]),
    ("C5-cfasm", ["riscv-lower-parallel-mov", "riscv-prologue-epilogue-insertion"]),
]
FINALS = ("S6-asm", "C5-cfasm", "P6-asm", "Q4-cfasm")
# stages executed on the IR after prologue/epilogue insertion: callee-saved registers are compared there too
FRAME_IR = ("P5-frame", "Q3-frame")
# side paths: name → (stage whose output they start from, stages)
SIDE_PATHS = {
    "C": ("S2-allocated", CF_STAGES),
    "E": ("S1-lowered", [("E1-earlycanon", ["canonicalize"])]),
    "P": ("S4-canon", [("P5-frame", [PROLOGUE]), ("P6-asm", ["lower-riscv-scf-to-labels"])]),
    "Q": ("S2-allocated", [("Q3-frame", [PROLOGUE]),
                           ("Q4-cfasm", ["convert-riscv-scf-to-riscv-cf", "canonicalize", "riscv-lower-parallel-mov"])]),
}
STAGE_SITE = {
    "S1-lowered": "xdsl.backend.riscv.lowering",
    "S2-allocated": "xdsl.transforms.riscv_allocate_registers.RISCVAllocateRegistersPass",
    "S3-pmov": "xdsl.transforms.riscv_lower_parallel_mov.RISCVLowerParallelMovPass",
    "S4-canon": "xdsl.transforms.canonicalize.CanonicalizePass[riscv]",
    "S5-labels": "xdsl.backend.riscv.riscv_scf_to_asm.LowerRiscvScfForToLabelsPass",
    "S6-asm": "xdsl.backend.riscv.prologue_epilogue_insertion.PrologueEpilogueInsertion",
    "C3-cf": "xdsl.backend.riscv.lowering.convert_riscv_scf_to_riscv_cf.ConvertRiscvScfToRiscvCfPass",
    "C4-cfcanon": "xdsl.transforms.canonicalize.CanonicalizePass[riscv_cf]",
    "C5-cfasm": "xdsl.backend.riscv.prologue_epilogue_insertion.PrologueEpilogueInsertion[riscv_cf]",
    "E1-earlycanon": "xdsl.transforms.canonicalize.CanonicalizePass[riscv]",
    "P5-frame": "xdsl.backend.riscv.prologue_epilogue_insertion.PrologueEpilogueInsertion[riscv_scf]",
    "P6-asm": "xdsl.backend.riscv.riscv_scf_to_asm.LowerRiscvScfForToLabelsPass",
    "Q3-frame": "xdsl.backend.riscv.prologue_epilogue_insertion.PrologueEpilogueInsertion[riscv_scf]",
    "Q4-cfasm": "xdsl.backend.riscv.lowering.convert_riscv_scf_to_riscv_cf.ConvertRiscvScfToRiscvCfPass",
}

INT_OPS = ["addi", "subi", "muli", "andi", "ori", "xori", "shli", "shrsi", "shrui", "divsi", "remsi", "divui", "remui"]


class Gen(proggen.ProgGen):
    """func/arith/scf.for programs over i32 (the only width the arith lowering accepts)"""

    def __init__(self, rng: Any, cmpi: list[str] | None = None):
        cfg = proggen.Config(int_types=["i32"], float_types=[], int_ops=list(INT_OPS), float_ops=[], casts=[],
                             scf_if=False, scf_for=True, cf=False, calls=True, externs=False, select=False,
                             max_stmts=6, max_depth=1)
        if cmpi is not None:
            cfg.cmpi_preds = cmpi
        super().__init__(rng, cfg)

    def int_const(self, t: str) -> int:
        r = self.rng.random()
        if r < 0.35:
            return self.rng.choice([2047, 2048, -2048, -2049, 4096, 65536, 46341, -65536, 0x7FFFF800, 5000, -5000])
        return super().int_const(t)

    def reset(self) -> None:
        self.n = 0
        self.nb = 0
        self.ext_sigs = {}
        self.helpers = []

    def function(self, name: str) -> tuple[str, list[str], list[str]]:
        """one generated function: (text, argument types, result types)"""
        c = self.cfg
        arg_tys = ["i32"] * self.rng.randint(1, 4)
        args = [f"%a{i}" for i in range(len(arg_tys))]
        pool: dict[str, list[str]] = {"i32": list(args)}
        lines: list[str] = []
        for _ in range(self.rng.randint(1, c.max_stmts)):
            if self.rng.random() < 0.12:  # x+x, x-x, x&x … : the *BySelf patterns
                a = self.rng.choice(pool["i32"])
                v = self.fresh()
                lines.append(f"  {v} = arith.{self.rng.choice(['addi', 'addi', 'subi', 'andi', 'ori', 'xori'])} {a}, {a} : i32")
                pool["i32"].append(v)
            else:
                self.stmt(pool, lines, "  ", 0)
        ret_tys = [("i1" if self.rng.random() < 0.07 else "i32") for _ in range(self.rng.randint(1, 2))]
        rets = []
        for t in ret_tys:
            vs = pool.get(t, [])
            rets.append(vs[-1] if vs and self.rng.random() < 0.6 else self.pick(pool, t, lines, "  "))
        sig = ", ".join(f"{a}: {t}" for a, t in zip(args, arg_tys))
        text = (f"func.func @{name}({sig}) -> ({', '.join(ret_tys)}) {{\n" + "\n".join(lines)
                + f"\n  func.return {', '.join(rets)} : {', '.join(ret_tys)}\n}}\n")
        return text, arg_tys, ret_tys

    def program(self) -> dict[str, Any]:
        c = self.cfg
        self.reset()
        funcs: list[str] = []
        if c.calls and self.rng.random() < 0.08:
            funcs.append(self.helper())
        main, arg_tys, ret_tys = self.function("main")
        funcs.append(main)
        return {"text": "builtin.module {\n" + "".join(funcs) + "}\n", "arg_types": arg_tys, "ret_types": ret_tys}

    def multi_program(self) -> dict[str, Any]:
        """a module of 2-3 functions lowered to ONE assembler unit; at least two of them contain loops (mostly of a
        shape the allocator handles: `loop_function`; the others are drawn from the general generator).  Every
        function is an entry point of the unit.  Now and then one more function calls the others."""
        self.reset()
        k = self.rng.choice([2, 2, 2, 3])
        names = ["main"] + [f"f{j}" for j in range(1, k)]
        self.rng.shuffle(names)
        texts: list[str] = []
        funcs: list[dict[str, Any]] = []
        nloops = 0
        for j, name in enumerate(names):
            if self.rng.random() < 0.7 or (k - j) <= 2 - nloops:
                text, a, r = loop_function(self.rng, name)
            else:
                text, a, r = self.function(name)
            nloops += "scf.for" in text
            texts.append(text)
            funcs.append({"name": name, "arg_types": a, "ret_types": r})
        if self.rng.random() < 0.1:
            callee = self.rng.choice([f for f in funcs if f["arg_types"] == ["i32", "i32"] and f["ret_types"] == ["i32"]] or [None])
            if callee is not None:
                texts.append(call_function("w", callee["name"]))
                funcs.append({"name": "w", "arg_types": ["i32", "i32"], "ret_types": ["i32"]})
        return multi_module(texts, funcs)


LOOP_OPS = ["addi", "subi", "xori", "muli", "ori", "andi", "addi", "muli"]


def multi_module(texts: list[str], funcs: list[dict[str, Any]]) -> dict[str, Any]:
    main = next((f for f in funcs if f["name"] == "main"), funcs[0])
    return {"text": "builtin.module {\n" + "".join(texts) + "}\n", "arg_types": main["arg_types"], "ret_types": main["ret_types"],
            "funcs": funcs}


def call_function(name: str, callee: str) -> str:
    return (f"func.func @{name}(%a0: i32, %a1: i32) -> (i32) {{\n  %c = func.call @{callee}(%a0, %a1) : (i32, i32) -> i32\n"
            f"  func.return %c : i32\n}}\n")


def loop_function(rng: Any, name: str, shape: str | None = None) -> tuple[str, list[str], list[str]]:
    """`func.func @name(i32, i32) -> i32` with at least one scf.for; every yielded value is produced after the last
    use of the block argument it replaces (the shape the allocator handles, cf. `unsafe_source_loops`).
    Shapes: one loop, two loops in sequence, a nested pair (inner result yielded directly or after more work);
    bounds are constants (zero-trip, one trip, several) or `0 .. (arg & 7)`, so that the trip count depends on the
    input; bodies use the loop-carried value, an argument, small constants and the induction variable.  Every
    function draws its own operations and constants: code of one function executed in place of another's shows."""
    shape = shape or rng.choice(["one", "one", "two", "nested", "nested"])
    head: list[str] = []   # constants and bounds, defined once at the top of the function
    body: list[str] = []
    n = [0]

    def fresh(p: str) -> str:
        n[0] += 1
        return f"%{p}{n[0]}"

    def cidx(v: int) -> str:
        c = fresh("c")
        head.append(f"  {c} = arith.constant {v} : index")
        return c

    def c32(v: int) -> str:
        c = fresh("k")
        head.append(f"  {c} = arith.constant {v} : i32")
        return c

    def bounds() -> tuple[str, str, str]:
        if rng.random() < 0.4:   # trip count from an argument, 0..7
            m, u = fresh("m"), fresh("u")
            head.append(f"  {m} = arith.andi {rng.choice(['%a0', '%a1'])}, {c32(7)} : i32")
            head.append(f"  {u} = arith.index_cast {m} : i32 to index")
            return cidx(0), u, cidx(rng.choice([1, 1, 2]))
        lb, st = rng.choice([0, 0, 1, -1]), rng.choice([1, 1, 2, 3])
        return cidx(lb), cidx(lb + st * rng.choice([0, 1, 2, 3, 4])), cidx(st)

    def work(cur: str, others: list[str], ind: str, lo: int, hi: int) -> str:
        for _ in range(rng.randint(lo, hi)):
            v = fresh("n")
            o = rng.choice(others) if rng.random() < 0.7 else c32(rng.choice([1, 2, 3, 5, 7, -1, 11, 2047, 4096]))
            body.append(f"{ind}{v} = arith.{rng.choice(LOOP_OPS)} {cur}, {o} : i32")
            cur = v
        return cur

    def loop(init: str, ind: str, nest: bool, outer: list[str]) -> str:
        lb, ub, st = bounds()
        r, acc, iv = fresh("r"), fresh("acc"), fresh("i")
        body.append(f"{ind}{r} = scf.for {iv} = {lb} to {ub} step {st} iter_args({acc} = {init}) -> (i32) {{")
        others = ["%a0", "%a1"] + outer
        if rng.random() < 0.4:
            ivc = fresh("j")
            body.append(f"{ind}  {ivc} = arith.index_cast {iv} : index to i32")
            others.append(ivc)
        if nest:
            inner = loop(acc, ind + "  ", False, [acc])   # the outer carried value is read inside the inner loop
            cur = work(inner, others, ind + "  ", 0, 1)    # 0: the inner result is yielded directly
        else:
            cur = work(acc, others, ind + "  ", 1, 2)
        body.append(f"{ind}  scf.yield {cur} : i32")
        body.append(ind + "}")
        return r

    start = rng.choice(["%a0", "%a0", "%a1", c32(rng.choice([1, 7, -3]))])
    r = loop(start, "  ", shape == "nested", [])
    if shape == "two":
        r = loop(r, "  ", False, [])
    if rng.random() < 0.3:
        v = fresh("n")
        body.append(f"  {v} = arith.{rng.choice(LOOP_OPS)} {r}, {rng.choice(['%a0', '%a1'])} : i32")
        r = v
    text = (f"func.func @{name}(%a0: i32, %a1: i32) -> (i32) {{\n" + "\n".join(head + body) + f"\n  func.return {r} : i32\n}}\n")
    return text, ["i32", "i32"], ["i32"]


def multi_directed() -> list[dict[str, Any]]:
    """fixed modules of several functions (re-examined on every run): 2 x one loop, 3 x mixed shapes, a loop-free
    function between two loop functions, a function that calls a loop function"""
    import random as _random

    def fns(seed: int, spec: list[tuple[str, str]]) -> tuple[list[str], list[dict[str, Any]]]:
        rng = _random.Random(seed)
        texts, funcs = [], []
        for name, shape in spec:
            if shape == "flat":
                t = (f"func.func @{name}(%a0: i32, %a1: i32) -> (i32) {{\n  %k = arith.constant 9 : i32\n  %v = arith.muli %a0, %k : i32\n"
                     "  %w = arith.subi %v, %a1 : i32\n  func.return %w : i32\n}\n")
                a, r = ["i32", "i32"], ["i32"]
            elif shape == "call":
                t, a, r = call_function(name, spec[0][0]), ["i32", "i32"], ["i32"]
            else:
                t, a, r = loop_function(rng, name, shape)
            texts.append(t)
            funcs.append({"name": name, "arg_types": a, "ret_types": r})
        return texts, funcs
    return [multi_module(*fns(1, [("f1", "one"), ("main", "one")])),
            multi_module(*fns(2, [("main", "nested"), ("f1", "two"), ("f2", "one")])),
            multi_module(*fns(3, [("f1", "one"), ("f2", "flat"), ("main", "nested")])),
            multi_module(*fns(4, [("main", "two"), ("f1", "two")])),
            multi_module(*fns(5, [("f1", "one"), ("main", "call")]))]


def cmpi_program(pred: str, swap: bool) -> dict[str, Any]:
    a, b = ("%a1", "%a0") if swap else ("%a0", "%a1")
    return {"text": "builtin.module {\nfunc.func @main(%a0: i32, %a1: i32) -> (i1) {\n"
                    f"  %v1 = arith.cmpi {pred}, {a}, {b} : i32\n  func.return %v1 : i1\n}}\n}}\n",
            "arg_types": ["i32", "i32"], "ret_types": ["i1"]}


def directed_programs() -> list[dict[str, Any]]:
    """fixed minimal programs that are re-examined on every run"""
    def prog(args: int, rets: list[str], body: str, ret: str) -> dict[str, Any]:
        sig = ", ".join(f"%a{i}: i32" for i in range(args))
        return {"text": f"builtin.module {{\nfunc.func @main({sig}) -> ({', '.join(rets)}) {{\n{body}\n  func.return {ret} : {', '.join(rets)}\n}}\n}}\n",
                "arg_types": ["i32"] * args, "ret_types": rets}
    loop = ("  %lb = arith.constant 0 : index\n  %ub = arith.constant 3 : index\n  %st = arith.constant 1 : index\n"
            "  %r, %s = scf.for %i = %lb to %ub step %st iter_args(%acc = %a0, %acc2 = %a1) -> (i32, i32) {\n"
            "    %n = arith.addi %acc, %acc2 : i32\n    %m = arith.muli %acc, %n : i32\n    scf.yield %n, %m : i32, i32\n  }")
    out = [
        # loop-carried value defined while the block argument is still needed (listed allocator finding)
        prog(2, ["i32", "i32"], loop, "%r, %s"),
        # the same finding through the zero register: the yield operand is a constant 0 defined outside the loop, so the
        # carried value is tied to `zero` and its initial value is discarded (`mv zero, t1`)
        prog(2, ["i32"], "  %lb = arith.constant 0 : index\n  %ub = arith.constant 3 : index\n  %st = arith.constant 1 : index\n  %z = arith.constant 0 : i32\n"
             "  %r, %s = scf.for %i = %lb to %ub step %st iter_args(%acc = %a0, %d = %a1) -> (i32, i32) {\n"
             "    %n = arith.addi %acc, %d : i32\n    scf.yield %n, %z : i32, i32\n  }", "%r"),
        # immediates at the 12-bit boundary, constants that wrap
        prog(1, ["i32"], "  %c = arith.constant 2048 : i32\n  %v = arith.addi %a0, %c : i32", "%v"),
        prog(1, ["i32"], "  %c = arith.constant -2048 : i32\n  %v = arith.subi %a0, %c : i32", "%v"),
        prog(1, ["i32"], "  %c = arith.constant 2047 : i32\n  %v = arith.addi %a0, %c : i32", "%v"),
        prog(1, ["i32"], "  %c = arith.constant 65536 : i32\n  %d = arith.muli %c, %c : i32\n  %v = arith.addi %a0, %d : i32", "%v"),
        prog(1, ["i32"], "  %c = arith.constant 2147483647 : i32\n  %o = arith.constant 1 : i32\n  %d = arith.addi %c, %o : i32\n  %v = arith.xori %a0, %d : i32", "%v"),
        # x + x after register allocation
        prog(1, ["i32"], "  %v = arith.addi %a0, %a0 : i32\n  %w = arith.addi %v, %v : i32", "%w"),
        # and/xor with two zero constants
        prog(1, ["i32"], "  %c = arith.constant 0 : i32\n  %d = arith.andi %c, %c : i32\n  %e = arith.xori %c, %c : i32\n  %v = arith.addi %a0, %d : i32\n  %w = arith.addi %v, %e : i32", "%w"),
    ]
    # loops the allocator handles: accumulate, non-unit step, zero-trip, argument bounds
    for lb, ub, st in ((0, 3, 1), (1, 8, 3), (4, 4, 1), (5, 2, 1), (-2, 3, 2)):
        out.append(prog(2, ["i32"], f"  %lb = arith.constant {lb} : index\n  %ub = arith.constant {ub} : index\n  %st = arith.constant {st} : index\n"
                        "  %r = scf.for %i = %lb to %ub step %st iter_args(%acc = %a0) -> (i32) {\n"
                        "    %n = arith.addi %acc, %a1 : i32\n    %m = arith.muli %n, %n : i32\n    scf.yield %m : i32\n  }", "%r"))
    # nested loops: the inner result is yielded by the outer loop, the outer carried value is read inside
    for fx in NESTED_FIXED:
        out.append(nested_program(None, fx))
    # constant-bound loops whose guard compares equal / adjacent constants (folded on the cf path)
    for lb, ub, st in ((3, 3, 1), (0, 0, 1), (-1, -1, 2), (7, 8, 1), (8, 7, 1), (-1, 0, 1), (2147483646, 2147483647, 1)):
        out.append(prog(2, ["i32"], f"  %lb = arith.constant {lb} : index\n  %ub = arith.constant {ub} : index\n  %st = arith.constant {st} : index\n"
                        "  %r = scf.for %i = %lb to %ub step %st iter_args(%acc = %a0) -> (i32) {\n"
                        "    %n = arith.addi %acc, %acc : i32\n    %m = arith.xori %n, %a1 : i32\n    scf.yield %m : i32\n  }", "%r"))
    # every integer op of the arith lowering table, on two arguments and with a constant operand
    for op in INT_OPS:
        out.append(prog(2, ["i32"], f"  %v = arith.{op} %a0, %a1 : i32", "%v"))
        out.append(prog(2, ["i32"], f"  %c = arith.constant 3 : i32\n  %v = arith.{op} %a0, %c : i32\n  %w = arith.{op} %c, %a1 : i32\n  %x = arith.xori %v, %w : i32", "%x"))
    return out


def nested_program(rng: Any, fixed: tuple[Any, ...] | None = None) -> dict[str, Any]:
    """outer scf.for whose carried value(s) are read inside an inner scf.for and which yields the
    inner result directly; every yielded value is produced after the last use of the block argument
    it replaces (the shape the allocator handles); constant bounds, ≥ 2 iterations unless asked"""
    if fixed is not None:
        (olb, oub, ost), (ilb, iub, ist), op1, op2, two, extra = fixed
    else:
        olb, ost = rng.choice([0, 1, -1]), rng.choice([1, 1, 2])
        oub = olb + ost * rng.choice([2, 2, 3, 0, 1])
        ilb, ist = rng.choice([0, 2, -2]), rng.choice([1, 1, 3])
        iub = ilb + ist * rng.choice([2, 3, 4, 0, 1])
        op1, op2 = rng.choice(["addi", "subi", "xori", "muli", "addi"]), rng.choice(["addi", "xori", "ori", "subi"])
        two, extra = rng.random() < 0.4, rng.random() < 0.5
    nargs = 2
    L = [f"  %olb = arith.constant {olb} : index", f"  %oub = arith.constant {oub} : index", f"  %ost = arith.constant {ost} : index",
         f"  %ilb = arith.constant {ilb} : index", f"  %iub = arith.constant {iub} : index", f"  %ist = arith.constant {ist} : index"]
    if not two:
        L += ["  %r = scf.for %i = %olb to %oub step %ost iter_args(%acc = %a0) -> (i32) {",
              "    %in = scf.for %j = %ilb to %iub step %ist iter_args(%a2 = %acc) -> (i32) {",
              f"      %t = arith.{op1} %a2, %acc : i32"]
        if extra:
            L += [f"      %u = arith.{op2} %t, %a1 : i32", "      scf.yield %u : i32"]
        else:
            L += ["      scf.yield %t : i32"]
        L += ["    }", "    scf.yield %in : i32", "  }"]
        ret, rets = "%r", ["i32"]
    else:
        L += ["  %r, %q = scf.for %i = %olb to %oub step %ost iter_args(%acc = %a0, %cnt = %a1) -> (i32, i32) {",
              "    %in = scf.for %j = %ilb to %iub step %ist iter_args(%a2 = %acc) -> (i32) {",
              f"      %t = arith.{op1} %a2, %acc : i32",
              f"      %u = arith.{op2} %t, %cnt : i32",
              "      scf.yield %u : i32", "    }",
              "    %c1 = arith.constant 1 : i32",
              "    %cn = arith.addi %cnt, %c1 : i32",
              "    scf.yield %in, %cn : i32, i32", "  }"]
        ret, rets = "%r, %q", ["i32", "i32"]
    sig = ", ".join(f"%a{i}: i32" for i in range(nargs))
    return {"text": f"builtin.module {{\nfunc.func @main({sig}) -> ({', '.join(rets)}) {{\n" + "\n".join(L)
                    + f"\n  func.return {ret} : {', '.join(rets)}\n}}\n}}\n",
            "arg_types": ["i32"] * nargs, "ret_types": rets}


# ------------------------------------------------------------------------------------------------
# float programs: straight-line f64 / f32 arith with per-operation fast-math flags
# ------------------------------------------------------------------------------------------------

F_ARITH = {"addf": "fadd", "subf": "fsub", "mulf": "fmul", "divf": "fdiv", "negf": "fsgnjn"}
F_FLAGS = ["", "contract", "reassoc", "fast", "nnan", "ninf", "nsz", "arcp", "afn", "reassoc,nnan", "nnan,contract"]


def float_program_of(ty: str, nargs: int, ops: list[tuple[str, str, str, str, str]], rets: list[str]) -> dict[str, Any]:
    """ops: (arith op, result, lhs, rhs, fast-math flags) over %a0.. and earlier results.  `fspec` is the same
    program as instruction list for the oracle's evaluator (one rounding per operation unless both operations of
    a product-sum pair carry `contract`)"""
    sig = ", ".join(f"%a{i}: {ty}" for i in range(nargs))
    lines = []
    for op, res, a, b, fl in ops:
        fm = f" fastmath<{fl}>" if fl else ""
        if op == "negf":   # unary (b = a); for the oracle: sign injection of the negated own sign
            lines.append(f"  %{res} = arith.negf %{a} : {ty}")
            continue
        lines.append(f"  %{res} = arith.{op} %{a}, %{b}{fm} : {ty}")
    rtys = [ty] * len(rets)
    text = (f"builtin.module {{\nfunc.func @main({sig}) -> ({', '.join(rtys)}) {{\n" + "\n".join(lines)
            + f"\n  func.return {', '.join('%' + r for r in rets)} : {', '.join(rtys)}\n}}\n}}\n")
    prec = ".d" if ty == "f64" else ".s"
    return {"text": text, "arg_types": [ty] * nargs, "ret_types": rtys,
            "fspec": {"ops": [[F_ARITH[op] + prec, res, None, a, b, fl] for op, res, a, b, fl in ops], "rets": rets,
                      "args": [f"a{i}" for i in range(nargs)], "double": ty == "f64"}}


def float_program(rng: Any) -> dict[str, Any]:
    ty = "f64" if rng.random() < 0.8 else "f32"
    nargs = rng.randint(2, 4)
    pool = [f"a{i}" for i in range(nargs)]
    ops: list[tuple[str, str, str, str, str]] = []
    k = 0

    def fresh() -> str:
        nonlocal k
        k += 1
        return f"v{k}"
    for _ in range(rng.randint(1, 3)):
        if rng.random() < 0.6:   # a product feeding a sum / difference, flags equal with probability 1/2
            f1 = rng.choice(F_FLAGS)
            f2 = f1 if rng.random() < 0.5 else rng.choice(F_FLAGS)
            m = fresh()
            ops.append(("mulf", m, rng.choice(pool), rng.choice(pool), f1))
            if rng.random() < 0.3:   # other work in between
                w = fresh()
                ops.append((rng.choice(["addf", "subf", "mulf"]), w, rng.choice(pool), rng.choice(pool), rng.choice(F_FLAGS)))
                pool.append(w)
            r = fresh()
            other = rng.choice(pool)
            ops.append((rng.choice(["addf", "addf", "addf", "subf"]), r, *((m, other) if rng.random() < 0.5 else (other, m)), f2))
            if rng.random() < 0.2:
                pool.append(m)
            pool.append(r)
        else:
            r = fresh()
            op = rng.choice(["addf", "subf", "mulf", "divf"] + (["negf"] if ty == "f32" else []))  # f64 negf: refused by the lowering
            a = rng.choice(pool)
            ops.append((op, r, a, a if op == "negf" else rng.choice(pool), "" if op == "negf" else rng.choice(F_FLAGS)))
            pool.append(r)
    rets = [pool[-1]] + ([rng.choice(pool[nargs:])] if rng.random() < 0.3 else [])
    return float_program_of(ty, nargs, ops, rets)


def float_directed() -> list[dict[str, Any]]:
    out = []
    for fl in F_FLAGS:
        out.append(float_program_of("f64", 3, [("mulf", "m", "a0", "a1", fl), ("addf", "r", "m", "a2", fl)], ["r"]))
    for f1, f2 in (("contract", ""), ("", "contract"), ("reassoc", "contract"), ("fast", "reassoc"), ("contract", "fast")):
        out.append(float_program_of("f64", 3, [("mulf", "m", "a0", "a1", f1), ("addf", "r", "a2", "m", f2)], ["r"]))
    # the multiplicands are dead before the sum (their registers are reused once allocated)
    out.append(float_program_of("f64", 3, [("mulf", "m", "a0", "a1", "contract"), ("addf", "x", "a2", "a2", ""),
                                           ("addf", "r", "m", "x", "contract")], ["r"]))
    out.append(float_program_of("f32", 3, [("mulf", "m", "a0", "a1", "contract"), ("addf", "r", "m", "a2", "contract")], ["r"]))
    for op in F_ARITH:
        b = "a0" if op == "negf" else "a1"
        out.append(float_program_of("f64", 2, [(op, "r", "a0", b, "")], ["r"]))
        out.append(float_program_of("f32", 2, [(op, "r", "a0", b, "")], ["r"]))
    return out


CMPF = ["false", "oeq", "ogt", "oge", "olt", "ole", "one", "ord", "ueq", "ugt", "uge", "ult", "ule", "une", "uno", "true"]


def cmpf_program(pred: str, ty: str, swap: bool = False, fm: str = "") -> dict[str, Any]:
    """one arith.cmpf on the two arguments; like the cmpi programs the i1 result is observed in a0 after the arith
    lowering / allocation / early canonicalization (an i1 cannot pass riscv-lower-parallel-mov in the pinned pipeline)"""
    a, b = ("%a1", "%a0") if swap else ("%a0", "%a1")
    fmt = f" fastmath<{fm}>" if fm else ""
    return {"text": f"builtin.module {{\nfunc.func @main(%a0: {ty}, %a1: {ty}) -> (i1) {{\n"
                    f"  %v1 = arith.cmpf {pred}, {a}, {b}{fmt} : {ty}\n  func.return %v1 : i1\n}}\n}}\n",
            "arg_types": [ty, ty], "ret_types": ["i1"], "float_args": True}


def cmpf_inputs(rng: Any, ty: str, nrandom: int = 3, finite_only: bool = False) -> list[list[int]]:
    """operand pairs (bit patterns) that separate the 16 predicates: the three IEEE relations lt / eq / gt and
    unordered each occur - equal operands (same pattern, +0 vs -0, both infinite), adjacent values, NaN on either /
    both sides - plus random pairs.  Random floats alone practically never compare equal or unordered."""
    from props import c22_snip as sn

    d = ty == "f64"
    one, two, inf = (0x3FF0000000000000, 0x4000000000000000, 0x7FF0000000000000) if d else (0x3F800000, 0x40000000, 0x7F800000)
    sb = 1 << (63 if d else 31)
    qnan = rv.QNAN64 if d else rv.QNAN32
    rnd = (lambda: sn.rand_f64(rng) & rv.M64) if d else (lambda: sn.rand_f32(rng) & rv.M32)
    x = rnd()
    while rv.is_nan_bits(x, d):
        x = rnd()
    out = [[one, two], [two, one], [one, one], [x, x], [0, sb], [sb, 0], [inf, inf], [inf | sb, inf], [one, one + 1], [one + 1, one],
           [one | sb, one], [qnan, one], [one, qnan], [qnan, qnan], [x, qnan]]
    for _ in range(nrandom):
        out.append([rnd(), rnd()])
    if finite_only:   # fast-math flags (nnan, ninf): a NaN / infinite operand makes the source result poison
        fin = lambda v: not rv.is_nan_bits(v, d) and (v & ~sb) != inf  # noqa: E731
        out = [pr for pr in out if fin(pr[0]) and fin(pr[1])]
    return out


def float_inputs(rng: Any, p: dict[str, Any], n: int) -> list[list[int]]:
    from props import c22_snip as sn

    out = []
    for _ in range(n):
        if p["fspec"]["double"]:
            out.append(sn.related_f64(rng, [sn.rand_f64(rng) for _ in p["arg_types"]]))
        else:
            out.append([sn.rand_f32(rng) & rv.M32 for _ in p["arg_types"]])
    return out


def float_admissible(p: dict[str, Any], vec: list[int]) -> list[list[Any]]:
    """results the source admits on this input: strict evaluation first, then every contraction its flags licence"""
    from props import c22_snip as sn

    fs = p["fspec"]
    d = fs["double"]
    idx: dict[str, str] = {}

    def ren(n: str) -> str:   # every source value in its own virtual F/D register
        return idx.setdefault(n, f"v{len(idx)}")
    prog = [(op[0], [ren(op[1]), ren(op[3]), ren(op[4])]) for op in fs["ops"]]
    names = frozenset(ren(a) for a in fs["args"]) | frozenset(ren(op[1]) for op in fs["ops"])
    regs = {ren(a): (v if d else rv.box32(v)) for a, v in zip(fs["args"], vec)}
    outs = []
    for c in [None] + sn.contraction_choices(sn.licensed_contractions({"ops": fs["ops"]})):
        o = sn.run_prog(prog, regs, [ren(r) for r in fs["rets"]], 0, names, fuse=c)
        r = canon_rets(o[1], p["ret_types"])
        if r not in outs:
            outs.append(r)
    return outs


NESTED_FIXED = [
    ((0, 2, 1), (0, 3, 1), "addi", "addi", False, False),
    ((0, 3, 1), (0, 2, 1), "addi", "xori", False, True),
    ((1, 5, 2), (-2, 4, 3), "subi", "addi", False, False),
    ((0, 2, 1), (0, 2, 1), "addi", "addi", True, False),
    ((0, 2, 1), (3, 3, 1), "addi", "addi", False, False),   # inner zero-trip
    ((2, 2, 1), (0, 3, 1), "addi", "addi", False, False),   # outer zero-trip
]


BOUNDARY_PAIRS = [[-(1 << 31), (1 << 31) - 1], [(1 << 31) - 1, -(1 << 31)], [-1, 0], [0, -1], [5, 5], [-8, 1], [-8, 31], [7, 3],
                  [-7, 3], [7, -3], [-7, -3], [-(1 << 31), 1], [1, 31], [-1, 31], [123456789, 7], [-123456789, 7],
                  [2, 3], [0, 1], [-1, -2], [1, 3]]  # the last four: operands that differ in bit 0 / bit 1 only


# ------------------------------------------------------------------------------------------------
# running the real passes
# ------------------------------------------------------------------------------------------------

_PASSES: dict[str, Any] = {}


def get_pass(name: str) -> Any:
    if not _PASSES:
        from xdsl.transforms import get_all_passes

        _PASSES.update(get_all_passes())
    return _PASSES[name]()


def apply_passes(m: Any, names: list[str], frame_obs: Any = None) -> tuple[str, str, str] | None:
    """None on success, else (pass, exception class, message).  `frame_obs`: called with
    [(function, tree before, what the pass inserted)] around riscv-prologue-epilogue-insertion"""
    from xdsl.context import Context

    ctx = Context()
    for n in names:
        before = frame_before(m) if (frame_obs is not None and n == PROLOGUE) else None
        try:
            get_pass(n)().apply(ctx, m)
            m.verify()
        except Exception as e:  # noqa: BLE001
            return (n, type(e).__name__, str(e).split("\n")[0][:160])
        if before is not None:
            frame_obs(frame_after(m, before))
    return None


# ------------------------------------------------------------------------------------------------
# what PrologueEpilogueInsertion sees and does (for the Lean model `riscv_frame`: usedCalleeSaved / layout)
# ------------------------------------------------------------------------------------------------

def xreg(t: Any) -> int:
    """register code of the Lean frame model: integer x_n → n, float f_n → 100 + n, unallocated → 999"""
    from xdsl.dialects import riscv

    name = t.register_name.data if hasattr(t, "register_name") else ""
    if isinstance(t, riscv.IntRegisterType) and name in rv.REGNUM:
        return rv.REGNUM[name]
    if isinstance(t, riscv.FloatRegisterType) and name in rv.FREGNUM:
        return 100 + rv.FREGNUM[name]
    return 999


def walk_tree(func: Any) -> str:
    """the function body as the tree `func.walk()` visits: `(o r…)` an op with result registers r…,
    `(g)` a get_register op, `(o r… child…)` an op with regions (children = the block arguments of its regions as
    one leading `(o a…)`, then the ops of all blocks in order)"""
    from xdsl.dialects.riscv.abstract_ops import GetAnyRegisterOperation

    def node(op: Any) -> str:
        if isinstance(op, GetAnyRegisterOperation):
            return "( g )"
        regs = [str(xreg(r.type)) for r in op.results if hasattr(r.type, "register_name")]
        # block arguments of the op's regions (loop induction variable, loop-carried values): written by the code
        # the op lowers to; they come right after the op's own results, as one leading child without regions
        bargs = [str(xreg(a.type)) for reg in op.regions for blk in reg.blocks for a in blk.args if hasattr(a.type, "register_name")]
        kids = (["( o " + " ".join(bargs) + " )"] if bargs else []) + [node(o) for reg in op.regions for blk in reg.blocks for o in blk.ops]
        return "( o " + " ".join(regs + kids) + " )"
    return " ".join(node(o) for blk in func.body.blocks for o in blk.ops)


def frame_before(m: Any) -> dict[str, tuple[str, set[int]]]:
    from xdsl.dialects import riscv_func

    return {f.sym_name.data: (walk_tree(f), {id(o) for o in f.walk()})
            for f in m.walk() if isinstance(f, riscv_func.FuncOp) and f.body.blocks}


def frame_after(m: Any, before: dict[str, tuple[str, set[int]]]) -> list[tuple[str, str, str]]:
    """[(function, tree before the pass, `saved r… | size N | offs o…` read off the inserted prologue)]"""
    from xdsl.dialects import riscv, riscv_func

    out = []
    for f in m.walk():
        if not isinstance(f, riscv_func.FuncOp) or f.sym_name.data not in before:
            continue
        tree, ids = before[f.sym_name.data]
        saved, offs, size = [], [], 0
        for o in f.body.blocks.first.ops:
            if id(o) in ids:
                break
            if isinstance(o, riscv.AddiOp):
                size = -o.immediate.value.data
            elif isinstance(o, (riscv.SwOp, riscv.FSdOp)):
                saved.append(str(xreg(o.rs2.type)))
                offs.append(str(o.immediate.value.data))
        out.append((f.sym_name.data, tree, f"saved {' '.join(saved)} | size {size} | offs {' '.join(offs)}"))
    return out


def ir_label_defs(m: Any) -> list[str]:
    """the symbols the module will define once printed as ONE assembler unit: every function with a body and every
    riscv.label, in module order"""
    from xdsl.dialects import riscv, riscv_func

    out = []
    for o in m.walk():
        if isinstance(o, riscv_func.FuncOp) and o.body.blocks:
            out.append(o.sym_name.data)
        elif isinstance(o, riscv.LabelOp):
            out.append(o.label.data)
    return out


LABEL_KINDS = {"body": 0, "body_end": 1, "cond": 2}
# label kinds per loop, in the order of the Lean model's `alloc` line
KINDS_OF_STAGE = {"C3-cf": [0, 1], "S5-labels": [2, 0, 1], "P6-asm": [2, 0, 1]}


def loops_per_function(m: Any) -> list[tuple[str, int]]:
    """(function, number of riscv_scf.for at any depth) in module order"""
    from xdsl.dialects import riscv_func, riscv_scf

    return [(f.sym_name.data, sum(isinstance(o, riscv_scf.ForOp) for o in f.walk()))
            for f in m.walk() if isinstance(f, riscv_func.FuncOp) and f.body.blocks]


def labels_per_function(names: list[str], fnames: list[str], kinds: list[int]) -> str:
    """the unit's definitions grouped by function, each loop label as `kind.k`, sorted the way the Lean model lists
    them (by loop number, kinds in the model's order); a name of another form is kept verbatim"""
    import re

    groups: list[list[Any]] = []
    for n in names:
        if n in fnames:
            groups.append([])
            continue
        mt = re.fullmatch(r"scf_(cond|body_end|body)_(\d+)_for", n)
        if not groups:
            groups.append([])
        groups[-1].append((int(mt.group(2)), kinds.index(LABEL_KINDS[mt.group(1)]) if LABEL_KINDS[mt.group(1)] in kinds else 9,
                           f"{LABEL_KINDS[mt.group(1)]}.{mt.group(2)}") if mt else (1 << 30, 0, n))
    return " | ".join(" ".join(x[2] for x in sorted(g)) for g in groups)


def call_closure(src: Any) -> dict[str, set[str]]:
    """source module: function name → the functions it can reach through func.call (itself included)"""
    from xdsl.dialects import func

    direct: dict[str, set[str]] = {}
    for f in src.walk():
        if isinstance(f, func.FuncOp):
            direct[f.sym_name.data] = {o.callee.string_value() for o in f.walk() if isinstance(o, func.CallOp)}
    out: dict[str, set[str]] = {}
    for name in direct:
        seen, todo = {name}, [name]
        while todo:
            for c in direct.get(todo.pop(), ()):
                if c not in seen:
                    seen.add(c)
                    todo.append(c)
        out[name] = seen
    return out


def asm_text(m: Any) -> str:
    from xdsl.dialects.riscv import riscv_code

    return riscv_code(m)


def pin_s_registers(m: Any, rng: Any, p: float) -> int:
    """give some not loop-carried, unallocated integer / float results and some loop induction variables a
    callee-saved register each (distinct registers, so no interference is introduced); returns the number of pinned values"""
    from xdsl.dialects import riscv, riscv_scf
    from xdsl.rewriter import Rewriter

    free = [f"s{i}" for i in range(12)]
    rng.shuffle(free)
    ffree = [f"fs{i}" for i in range(12)]
    rng.shuffle(ffree)
    n = 0
    for op in list(m.walk()):
        # the induction variable of a loop: a block argument (no op result), written by the lowered loop code
        if isinstance(op, riscv_scf.ForOp) and free and rng.random() < p / 2:
            iv = op.body.block.args[0]
            if isinstance(iv.type, riscv.IntRegisterType) and not iv.type.is_allocated:
                Rewriter.replace_value_with_new_type(iv, riscv.IntRegisterType.from_name(free.pop()))
                n += 1
            continue
        if not isinstance(op, riscv.RISCVInstruction) or len(op.results) != 1:
            continue
        r = op.results[0]
        isf = isinstance(r.type, riscv.FloatRegisterType)
        if not isinstance(r.type, (riscv.IntRegisterType, riscv.FloatRegisterType)) or r.type.is_allocated:
            continue
        if not (ffree if isf else free):
            continue
        if any(isinstance(u.operation, (riscv_scf.ForOp, riscv_scf.YieldOp, riscv.ParallelMovOp)) for u in r.uses):
            continue
        if isinstance(op, (riscv.MVOp, riscv.FMvDOp, riscv.FMVOp)) or rng.random() >= p:
            continue
        Rewriter.replace_value_with_new_type(
            r, riscv.FloatRegisterType.from_name(ffree.pop()) if isf else riscv.IntRegisterType.from_name(free.pop()))
        n += 1
    return n


# ------------------------------------------------------------------------------------------------
# structured executor over riscv IR (stages S1..S4)
# ------------------------------------------------------------------------------------------------

class IRUnsupported(Exception):
    pass


def ins_of(op: Any, nm: Namer) -> tuple[str, list[Any]]:
    """(mnemonic, args) of one riscv instruction op; registers named by `nm`"""
    from xdsl.dialects import riscv
    from xdsl.dialects.builtin import IntegerAttr
    from xdsl.ir import SSAValue

    if isinstance(op, riscv.LwOp):
        return ("lw", [nm.reg(op.rd), nm.reg(op.rs1), op.immediate.value.data])
    if isinstance(op, riscv.SwOp):
        return ("sw", [nm.reg(op.rs2), nm.reg(op.rs1), op.immediate.value.data])
    if isinstance(op, (riscv.FSdOp, riscv.FSwOp)):
        return (op.assembly_instruction_name(), [nm.reg(op.rs2), nm.reg(op.rs1), op.immediate.value.data])
    args: list[Any] = []
    for a in op.assembly_line_args():
        if a is None:
            continue
        if isinstance(a, SSAValue):
            args.append(nm.reg(a))
        elif isinstance(a, IntegerAttr):
            args.append(a.value.data)
        else:
            args.append("?" + str(a))
    return (op.assembly_instruction_name(), args)


class IRExec:
    def __init__(self, module: Any, mach: rv.Machine, fuel: int = 200000):
        from xdsl.dialects import riscv_func

        self.m = mach
        self.nm = Namer()
        self.fuel = fuel
        self.funcs = {f.sym_name.data: f for f in module.walk() if isinstance(f, riscv_func.FuncOp)}
        self.ret_vals: list[int] | None = None
        self.trace: list[int] = []

    def ins_of(self, op: Any) -> tuple[str, list[Any]]:
        return ins_of(op, self.nm)

    def gv(self, v: Any) -> int:
        """value of an SSA value's register (F/D registers: 64-bit pattern)"""
        from xdsl.dialects import riscv

        r = self.nm.reg(v)
        return self.m.getf(r) if isinstance(v.type, riscv.FloatRegisterType) else self.m.get(r)

    def sv(self, v: Any, x: int) -> None:
        from xdsl.dialects import riscv

        r = self.nm.reg(v)
        if isinstance(v.type, riscv.FloatRegisterType):
            self.m.setf(r, x)
        else:
            self.m.set(r, x)

    def call(self, name: str, depth: int = 0) -> None:
        """run a function: blocks are left through riscv_cf terminators (block arguments are assigned
        simultaneously: a no-op once source and target share a register) or riscv_func.return"""
        if name not in self.funcs or depth > 20:
            raise IRUnsupported(f"call of {name}")
        blk = self.funcs[name].body.blocks.first
        while blk is not None:
            res = self.block(blk, depth)
            if isinstance(res, tuple) and res[0] == "goto":
                _, target, vals = res
                if len(vals) != len(target.args):
                    raise IRUnsupported("branch arity")
                for a, v in zip(target.args, vals):
                    self.sv(a, v)
                self.trace.append(id(target))
                blk = target
                self.tick()
            elif res is None:
                blk = None
            else:
                raise IRUnsupported("yield outside of a loop")

    def tick(self) -> None:
        self.m.steps += 1
        if self.m.steps > self.fuel:
            raise rv.Trap("fuel")

    def block(self, blk: Any, depth: int) -> Any:
        from xdsl.dialects import riscv, riscv_cf, riscv_func, riscv_scf
        from xdsl.dialects.builtin import IntegerAttr
        from xdsl.dialects.riscv.abstract_ops import GetAnyRegisterOperation
        from xdsl.ir import Dialect

        g, s, reg = self.m.get, self.m.set, self.nm.reg
        gv, sv = self.gv, self.sv
        for op in blk.ops:
            self.tick()
            if isinstance(op, riscv_func.ReturnOp):
                if depth == 0:
                    self.ret_vals = [gv(v) for v in op.operands]
                return None
            if isinstance(op, riscv_cf.ConditionalBranchOperation):
                taken = rv.branch_taken(Dialect.split_name(op.name)[1], g(reg(op.rs1)), g(reg(op.rs2)))
                target, args = (op.then_block, op.then_arguments) if taken else (op.else_block, op.else_arguments)
                return ("goto", target, [gv(x) for x in args])
            if isinstance(op, (riscv_cf.BranchOp, riscv_cf.JOp)):
                return ("goto", op.successor, [gv(x) for x in op.block_arguments])
            if isinstance(op, riscv_scf.YieldOp):
                return op
            if isinstance(op, GetAnyRegisterOperation) or isinstance(op, (riscv.LabelOp, riscv.CommentOp)):
                continue
            if isinstance(op, riscv.ParallelMovOp):
                vals = [gv(x) for x in op.inputs]
                for d, v in zip(op.outputs, vals):
                    sv(d, v)
                continue
            if isinstance(op, riscv_func.CallOp):
                self.call(op.callee.string_value(), depth + 1)
                continue
            if isinstance(op, riscv_scf.ForOp):
                body = op.body.block
                iv = reg(body.args[0])
                s(iv, g(reg(op.lb)))
                vals = [gv(x) for x in op.iter_args]
                for a, v in zip(body.args[1:], vals):
                    sv(a, v)
                if rv.s32(g(iv)) < rv.s32(g(reg(op.ub))):
                    while True:
                        y = self.block(body, depth)
                        if y is None:
                            raise IRUnsupported("loop body without yield")
                        vals = [gv(x) for x in y.operands]
                        for a, v in zip(body.args[1:], vals):
                            sv(a, v)
                        step = op.step.value.data if isinstance(op.step, IntegerAttr) else g(reg(op.step))
                        s(iv, g(iv) + step)
                        self.tick()
                        if not rv.s32(g(iv)) < rv.s32(g(reg(op.ub))):
                            break
                vals = [gv(a) for a in body.args[1:]]
                for r, v in zip(op.results, vals):
                    sv(r, v)
                continue
            if isinstance(op, riscv.RISCVInstruction):
                self.m.exec1(self.ins_of(op), 0)
                continue
            raise IRUnsupported(op.name)
        return None


ALL_CALLEE_SAVED = rv.CALLEE_SAVED + rv.FCALLEE_SAVED


def abi_regs(types: list[str]) -> list[str]:
    """argument / result registers: integers in a0.., floats in fa0.. (numbered separately)"""
    out, ni, nf = [], 0, 0
    for t in types:
        if t in ("f32", "f64"):
            out.append(f"fa{nf}")
            nf += 1
        else:
            out.append(f"a{ni}")
            ni += 1
    return out


def _rets(nret: int | list[str]) -> list[str]:
    return [f"a{i}" for i in range(nret)] if isinstance(nret, int) else list(nret)


def run_ir(module: Any, regs: dict[str, int], nret: int | list[str], entry: str = "main") -> tuple[Any, ...]:
    mach = rv.Machine([], regs)
    ex = IRExec(module, mach)
    try:
        ex.call(entry)
    except rv.Trap as e:
        return ("trap", str(e))
    return ("ok", [mach.get(r) for r in _rets(nret)], {r: mach.get(r) for r in ALL_CALLEE_SAVED}, ex.nm.n)


def run_asm(prog: list[tuple[str, list[Any]]], regs: dict[str, int], nret: int | list[str], entry: str = "main") -> tuple[Any, ...]:
    """the whole emitted unit is loaded (labels resolved over all functions of the module), `entry` is called"""
    mach = rv.Machine(prog, regs)
    try:
        mach.call(entry)
    except rv.Trap as e:
        return ("trap", str(e))
    return ("ok", [mach.get(r) for r in _rets(nret)], {r: mach.get(r) for r in ALL_CALLEE_SAVED})


def entry_regs(rng: Any, vec: list[int], arg_types: list[str] | None = None) -> dict[str, int]:
    """entry state: arguments (f32 NaN-boxed, f64 as bit pattern), every other register random"""
    regs: dict[str, int] = {"sp": rv.SP0}
    for k in range(12):
        regs[f"s{k}"] = rng.getrandbits(32)
    for k in range(7):
        regs[f"t{k}"] = rng.getrandbits(32)
    for k in range(8):
        regs[f"a{k}"] = rng.getrandbits(32)
    for n in rv.FABI:
        regs[n] = rng.getrandbits(64)
    for r, t, v in zip(abi_regs(arg_types or ["i32"] * len(vec)), arg_types or ["i32"] * len(vec), vec):
        regs[r] = rv.box32(v) if t == "f32" else (v & rv.M64) if t == "f64" else (v & rv.M32)
    return regs


def want_from_sem(line: str, ret_types: list[str]) -> list[int] | None:
    """`ok [i32:5,i1:-1] effects []` → register images (i1 true = 1)"""
    if not line.startswith("ok ["):
        return None
    body = line[4:].split("]")[0]
    out: list[Any] = []
    for item, t in zip(body.split(","), ret_types):
        txt = item.split(":")[1]
        if t in ("f32", "f64"):
            out.append("nan" if txt == "nan" else int(txt, 16))
            continue
        v = int(txt)
        out.append((v & 1) if t == "i1" else (v & rv.M32))
    return out


def canon_rets(vals: list[int], ret_types: list[str]) -> list[Any]:
    """returned registers as comparable results: i1 = bit 0, f32 = low word, every NaN is the same result"""
    out: list[Any] = []
    for x, t in zip(vals, ret_types):
        if t == "i1":
            out.append(x & 1)
        elif t == "f64":
            out.append("nan" if rv.is_nan_bits(x, True) else x)
        elif t == "f32":
            out.append("nan" if rv.is_nan_bits(rv.unbox32(x), False) else rv.unbox32(x))
        else:
            out.append(x)
    return out



# ------------------------------------------------------------------------------------------------
# attribution of allocator failures
# ------------------------------------------------------------------------------------------------

def unsafe_source_loops(src: Any, only: set[str] | None = None) -> bool:
    """On the *source* module (scf level, before any pass under test): does some scf.for yield a value
    that is not produced after the last use of the block argument it replaces?  That is the listed
    allocator limitation (riscv_scf.for ties yield operand and block argument without a copy):
    the yielded value is the block argument of another position, a value defined outside the body,
    yielded twice, or defined by an op of the body while the replaced block argument is still used by
    a later op.  A value produced by an inner scf.for counts as defined after that whole loop (its
    result is a fresh value once the loop is done), so block-argument uses inside it are fine."""
    from xdsl.dialects import func, scf
    from xdsl.ir import OpResult

    def fname(op: Any) -> str | None:
        while op is not None and not isinstance(op, func.FuncOp):
            op = op.parent_op()
        return op.sym_name.data if op is not None else None

    for op in src.walk():
        if not isinstance(op, scf.ForOp):
            continue
        if only is not None and fname(op) not in only:   # `only`: the functions an entry point can reach
            continue
        body = op.body.block
        ops = list(body.ops)
        pos = {id(o): i for i, o in enumerate(ops)}
        ys = list(ops[-1].operands)
        for b, yv in zip(body.args[1:], ys):
            if yv is b:
                continue
            if ys.count(yv) > 1:
                return True
            if not (isinstance(yv, OpResult) and id(yv.op) in pos):
                return True
            d = pos[id(yv.op)]
            for u in b.uses:
                o = u.operation
                while o is not None and id(o) not in pos:
                    o = o.parent_op()
                if o is None or pos[id(o)] > d:
                    return True
    return False


class _Tok:
    n = 0

    @classmethod
    def new(cls) -> int:
        cls.n += 1
        return cls.n


def interference(m: Any) -> list[dict[str, str]]:
    """Independent check of an allocated riscv module (structured form: riscv_func + riscv_scf.for):
    abstract execution that tracks which *value* (content token) every physical register holds and
    reports every use of an SSA value whose register holds something else at that point - in
    particular values overwritten inside a loop that are needed in a later iteration (loop bodies are
    re-run against the state merged over the back edge until nothing changes).  Copies (mv /
    parallel_mov) propagate the token, so a move into the same register is not a conflict."""
    from xdsl.dialects import riscv, riscv_func, riscv_scf
    from xdsl.dialects.riscv.abstract_ops import GetAnyRegisterOperation

    out: list[dict[str, str]] = []
    seen: set[tuple[int, int]] = set()
    tok: dict[int, int] = {}
    cur = [""]   # the function being analysed

    ZERO = _Tok.new()   # content of the hard-wired zero register: never changes, writes to it are discarded

    def regname(v: Any) -> str | None:
        t = v.type
        n = t.register_name.data if hasattr(t, "register_name") else ""
        return "zero" if n == "x0" else (n or None)

    def is_zero_const(op: Any) -> bool:
        from xdsl.dialects.builtin import IntegerAttr

        imm = getattr(op, "immediate", None)
        return op.name.endswith(".li") and isinstance(imm, IntegerAttr) and imm.value.data == 0

    def name(v: Any) -> str:
        return "%" + (v.name_hint or "?")

    def use(state: dict[str, int], v: Any, op: Any, loop_regs: set[str]) -> None:
        r = regname(v)
        if r is None:
            return
        if id(v) not in tok:
            tok[id(v)] = state.get(r, _Tok.new())  # first sight of a value defined outside (function argument)
            state.setdefault(r, tok[id(v)])
        if state.get(r) != tok[id(v)] and (id(v), id(op)) not in seen:
            seen.add((id(v), id(op)))
            out.append({"value": name(v), "register": r, "at": op.name, "loop_carried_register": str(r in loop_regs),
                        "function": cur[0]})

    def define(state: dict[str, int], v: Any, t: int | None = None) -> None:
        # one token per SSA value for the whole analysis (a copy carries the token of its source)
        tok[id(v)] = t if t is not None else (tok.get(id(v)) or _Tok.new())
        r = regname(v)
        if r is not None and r != "zero":   # a value "held" in zero reads 0 whatever was moved there
            state[r] = tok[id(v)]

    def merge(a: dict[str, int], b: dict[str, int]) -> tuple[dict[str, int], bool]:
        res, changed = {}, False
        for r in set(a) | set(b):
            if a.get(r) == b.get(r):
                res[r] = a[r]
            else:
                res[r] = a.get(r, 0) if a.get(r, 0) < 0 else -_Tok.new()  # negative = unknown, stays unknown
                changed = changed or a.get(r) != res[r]
        return res, changed

    def block(ops: Any, state: dict[str, int], loop_regs: set[str]) -> Any:
        for op in ops:
            if isinstance(op, (riscv.LabelOp, riscv.CommentOp)):
                continue
            if isinstance(op, GetAnyRegisterOperation):
                r = regname(op.results[0])
                if r is not None:
                    tok[id(op.results[0])] = state.setdefault(r, _Tok.new())
                continue
            if isinstance(op, riscv_scf.YieldOp):
                return op
            if isinstance(op, riscv_func.ReturnOp):
                for v in op.operands:
                    use(state, v, op, loop_regs)
                return None
            if isinstance(op, riscv.MVOp):
                use(state, op.rs, op, loop_regs)
                define(state, op.rd, tok.get(id(op.rs)))
                continue
            if isinstance(op, riscv.ParallelMovOp):
                for v in op.inputs:
                    use(state, v, op, loop_regs)
                ts = [tok.get(id(v)) for v in op.inputs]
                for o, t in zip(op.outputs, ts):
                    define(state, o, t)
                continue
            if isinstance(op, riscv_scf.ForOp):
                body = op.body.block
                for v in (op.lb, op.ub, *([op.step] if not hasattr(op.step, "value") else []), *op.iter_args):
                    use(state, v, op, loop_regs)
                inner_regs = loop_regs | {r for a in body.args[1:] if (r := regname(a)) is not None}
                entry = dict(state)
                for _ in range(8):
                    st = dict(entry)
                    for a in body.args:
                        define(st, a, tok.get(id(a)))
                    y = block(body.ops, st, inner_regs)
                    if y is not None:
                        for v in y.operands:
                            use(st, v, y, inner_regs)
                        use(st, op.ub, y, inner_regs)
                        if not hasattr(op.step, "value"):
                            use(st, op.step, y, inner_regs)
                        use(st, body.args[0], y, inner_regs)
                    for a in body.args:  # the back edge / exit redefines the carried registers
                        r = regname(a)
                        if r is not None:
                            st[r] = entry.get(r, st[r])
                    entry, changed = merge(entry, st)
                    if not changed:
                        break
                state.clear()
                state.update(entry)
                for a in body.args:
                    r = regname(a)
                    if r is not None and r != "zero":
                        state[r] = -_Tok.new()
                for res in op.results:
                    define(state, res)
                continue
            for v in op.operands:
                use(state, v, op, loop_regs)
            for res in op.results:
                define(state, res, ZERO if is_zero_const(op) else None)
        return None

    for f in m.walk():
        if isinstance(f, riscv_func.FuncOp) and f.body.blocks:
            if len(f.body.blocks) != 1:
                continue
            st: dict[str, int] = {"zero": ZERO}
            cur[0] = f.sym_name.data
            for a in f.body.blocks.first.args:
                define(st, a)
            block(f.body.blocks.first.ops, st, set())
    return out
