"""C04: generated programs with adversarial name hints, their observation (which name the real
printer gave to which value/block, what the parser stored back) and the model protocol lines."""
from __future__ import annotations

import itertools
import re
from typing import Any, Iterator

from vp import core

from props import c04_ir as I

# ---------------------------------------------------------------------------------------------
# spec → IR   (spec is JSON: {"ops": [OP...]};  OP = {"res":[raw..], "use":[idx..], "iso":bool,
#   "regions":[{"blocks":[{"hint":raw,"args":[raw..],"ops":[OP..],"succ":[idx..]}]}]})
#   raw = the string handed to `.name_hint = raw` (None = not set).  Value indices count value
#   definitions in pre-order (results of an op, then per block: arguments, ops).
# ---------------------------------------------------------------------------------------------

class Rejected(Exception):
    """the IR API refused a hint (ValueError): the case is outside the property's quantifier"""


def build(spec: dict[str, Any]):
    from xdsl.dialects import test
    from xdsl.dialects.builtin import ModuleOp, i32
    from xdsl.ir import Block, Region

    values: list[Any] = []
    pending: list[tuple[Any, list[int]]] = []

    lenient = bool(spec.get("lenient"))

    def set_hint(obj, raw):
        if raw is None:
            return
        try:
            obj.name_hint = raw
        except ValueError as e:
            if lenient:
                return  # the API refused this hint: the object simply has none
            raise Rejected(str(e)) from e

    def mk_op(o: dict[str, Any], blocks_here: list[Any] | None, term: bool):
        regions = []
        res_raw = o.get("res", [])
        # results are numbered before the values of the regions: reserve the slots
        slots = list(range(len(values), len(values) + len(res_raw)))
        values.extend([None] * len(res_raw))
        for r in o.get("regions", []):
            regions.append(mk_region(r))
        if o.get("iso"):
            op = ModuleOp(regions[0] if regions else Region(Block()))
        else:
            succ = [blocks_here[i] for i in o.get("succ", [])] if blocks_here is not None else []
            cls = test.TestTermOp if term else test.TestOp
            if term:
                op = cls.create(result_types=[i32] * len(res_raw), regions=regions, successors=succ)
            else:
                op = cls.create(result_types=[i32] * len(res_raw), regions=regions)
        for s, raw, r in zip(slots, res_raw, op.results):
            set_hint(r, raw)
            values[s] = r
        if o.get("use"):
            pending.append((op, list(o["use"])))
        return op

    def mk_region(r: dict[str, Any]):
        bspecs = r["blocks"]
        blocks = [Block(arg_types=[i32] * len(b.get("args", []))) for b in bspecs]
        for b, bs in zip(blocks, bspecs):
            set_hint(b, bs.get("hint"))
        for b, bs in zip(blocks, bspecs):
            for a, raw in zip(b.args, bs.get("args", [])):
                set_hint(a, raw)
                values.append(a)
            ops = bs.get("ops", [])
            for k, o in enumerate(ops):
                is_term = bool(o.get("term"))
                b.add_op(mk_op(o, blocks, is_term))
        return Region(blocks)

    body = Block()
    for o in spec["ops"]:
        body.add_op(mk_op(o, None, False))
    for op, idxs in pending:
        op.operands = tuple(values[i] for i in idxs if 0 <= i < len(values))
    return ModuleOp(Region(body))


# ---------------------------------------------------------------------------------------------
# observation of the printed text
# ---------------------------------------------------------------------------------------------

_STR = re.compile(r'"(?:[^"\\]|\\.)*"')
_TOK = re.compile(r'(?m)(^[ \t]*)?([%^])([^\s,:=()\[\]{}<>"]+)')


def tokens(text: str) -> list[tuple[str, str, bool]]:
    """(`%`|`^`, name, at_line_start) for every value / block identifier outside string literals"""
    clean = _STR.sub('""', text)
    return [(m.group(2), m.group(3), m.group(1) is not None) for m in _TOK.finditer(clean)]


def show_hint(h: str | None) -> str:
    return "~" if h is None else ("~e" if h == "" else h)


class Obs:
    """What the real printer did for one module, as protocol lines + outputs.
    lines[i] / impl[i]: `val h` → `name n`; `enter`/`exit` → `ok`; `region L h..` → `names n..`."""

    def __init__(self) -> None:
        self.lines: list[str] = []
        self.impl: list[str] = []
        self.problem: str | None = None  # the text did not have the expected shape
        self.val_order: list[Any] = []   # values in order of first printing
        self.block_order: list[Any] = []  # labelled blocks in order of their label
        self.val_name: dict[int, str] = {}
        self.block_name: dict[int, str] = {}
        self.inconsistent: str | None = None  # one value/block printed with two names


def observe(module, text: str, *, entry_label_rule_fixed: bool = True) -> Obs:
    """Walk `module` in the order of the generic printer and align with the identifier tokens of
    `text`."""
    from xdsl.traits import IsolatedFromAbove

    toks = tokens(text)
    pos = 0
    ob = Obs()
    keep: list[Any] = []
    pending_lines: list[tuple[int, Any]] = []  # (line index, value) whose name is filled later

    def next_tok(kind: str, line_start: bool | None = None):
        nonlocal pos
        if pos >= len(toks):
            ob.problem = ob.problem or f"ran out of identifier tokens (wanted {kind})"
            return None
        t = toks[pos]
        if t[0] != kind or (line_start is not None and t[2] != line_start):
            ob.problem = ob.problem or f"token {pos} is {t[0]}{t[1]} (line start {t[2]}), wanted {kind} (line start {line_start})"
            return None
        pos += 1
        return t[1]

    def occ_val(v) -> None:
        n = next_tok("%")
        if n is None:
            return
        k = id(v)
        if k not in ob.val_name:
            keep.append(v)
            ob.val_name[k] = n
            ob.val_order.append(v)
            ob.lines.append("val " + show_hint(v.name_hint))
            ob.impl.append("name " + n)
        elif ob.val_name[k] != n:
            ob.inconsistent = ob.inconsistent or f"one value printed as %{ob.val_name[k]} and %{n}"

    def occ_block(b, label: bool) -> None:
        n = next_tok("^", True if label else False)
        if n is None:
            return
        k = id(b)
        if k not in ob.block_name:
            keep.append(b)
            ob.block_name[k] = n
        elif ob.block_name[k] != n:
            ob.inconsistent = ob.inconsistent or f"one block printed as ^{ob.block_name[k]} and ^{n}"

    def walk_op(op) -> None:
        for r in op.results:
            occ_val(r)
        iso = bool(op.get_traits_of_type(IsolatedFromAbove))
        if iso:
            ob.lines.append("enter"); ob.impl.append("ok")
        for o in op.operands:
            occ_val(o)
        for s in op.successors:
            occ_block(s, False)
        for region in op.regions:
            walk_region(region)
        if iso:
            ob.lines.append("exit"); ob.impl.append("ok")

    def walk_region(region) -> None:
        blocks = list(region.blocks)
        if not blocks:
            return
        entry = blocks[0]
        labelled = bool(entry.args) or (not list(entry.ops)) or (entry.first_use is not None)
        line_idx = len(ob.lines)
        ob.lines.append(" ".join(["region", "1" if labelled else "0"] + [show_hint(b.name_hint) for b in blocks]))
        ob.impl.append("")  # filled below
        for i, b in enumerate(blocks):
            if i > 0 or labelled:
                occ_block(b, True)
                ob.block_order.append(b)
            for a in b.args:
                occ_val(a)
            for op in b.ops:
                walk_op(op)
        names = [ob.block_name.get(id(b), "?") for b in blocks]
        ob.impl[line_idx] = " ".join(["names"] + names)

    walk_op(module)
    if pos != len(toks) and ob.problem is None:
        ob.problem = f"{len(toks) - pos} identifier tokens left over"
    ob._keep = keep  # type: ignore[attr-defined]
    return ob


def mask_unknown(model_line: str, impl_line: str) -> str:
    """a block whose label is not printed and that is never referenced has no observable name"""
    if not impl_line.startswith("names"):
        return model_line
    m, i = model_line.split(" "), impl_line.split(" ")
    if len(m) != len(i):
        return model_line
    return " ".join("?" if y == "?" else x for x, y in zip(m, i))


# ---------------------------------------------------------------------------------------------
# exhaustive families
# ---------------------------------------------------------------------------------------------

def spec_values(raws: tuple) -> dict[str, Any]:
    """one `test.op` per value, then one user of all of them"""
    ops: list[dict[str, Any]] = [{"res": [r]} for r in raws]
    ops.append({"use": list(range(len(raws)))})
    return {"ops": ops}


def spec_multi(raws: tuple) -> dict[str, Any]:
    """all values as results of one op / block arguments of one region"""
    n = len(raws)
    half = n // 2
    blk = {"hint": None, "args": list(raws[half:]), "ops": [{"use": list(range(n)), "term": True}]}
    return {"ops": [{"res": list(raws[:half]), "regions": [{"blocks": [blk]}]}]}


def spec_blocks(raws: tuple, entry_args: bool, entry_pred: bool, two_regions: bool = False) -> dict[str, Any]:
    n = len(raws)

    def region() -> dict[str, Any]:
        blocks = []
        for i, r in enumerate(raws):
            succ = [j for j in range(n) if j != 0 or entry_pred]
            blocks.append({"hint": r, "args": (["x"] if (i == 0 and entry_args) else []),
                           "ops": [{"term": True, "succ": succ}]})
        return {"blocks": blocks}

    regs = [region(), region()] if two_regions else [region()]
    return {"ops": [{"regions": regs}]}


def scoped_event_seqs(alphabet: list, maxlen: int) -> Iterator[tuple]:
    """balanced sequences over val(h)/enter/exit"""
    evs = [("val", h) for h in alphabet] + [("enter",), ("exit",)]
    for n in range(1, maxlen + 1):
        for seq in itertools.product(evs, repeat=n):
            d = 0
            ok = True
            for e in seq:
                if e[0] == "enter":
                    d += 1
                elif e[0] == "exit":
                    d -= 1
                    if d < 0:
                        ok = False
                        break
            if ok and any(e[0] == "enter" for e in seq):
                yield seq


def spec_scoped(seq: tuple) -> dict[str, Any]:
    """events → nested `builtin.module`s (IsolatedFromAbove: a printer scope each)"""
    root: list[dict[str, Any]] = []
    stack = [root]
    for e in seq:
        if e[0] == "val":
            stack[-1].append({"res": [e[1]]})
        elif e[0] == "enter":
            body: list[dict[str, Any]] = []
            stack[-1].append({"iso": True, "regions": [{"blocks": [{"hint": None, "ops": body}]}]})
            stack.append(body)
        else:
            stack.pop()
    return {"ops": root}


def random_spec(rng, val_alpha: list, blk_alpha: list, size: int) -> dict[str, Any]:
    """random nested program: multi-block regions, isolated scopes, forward uses.  A use refers to
    a value defined (anywhere, before or after) in a region that encloses the user, up to the
    nearest isolated-from-above op."""
    counter = [0]
    budget = [size]

    def new_vals(k: int) -> list:
        counter[0] += k
        return [rng.choice(val_alpha) for _ in range(k)]

    def gen_ops(depth: int, vis: list[list[int]]) -> list[dict[str, Any]]:
        """`vis`: the value lists of the enclosing regions (innermost last)"""
        ops: list[dict[str, Any]] = []
        n = rng.randint(0, 3)
        for _ in range(n):
            if budget[0] <= 0:
                break
            budget[0] -= 1
            r = rng.random()
            if r < 0.55 or depth >= 3:
                k = rng.choice([1, 1, 1, 2, 3])
                base = counter[0]
                o: dict[str, Any] = {"res": new_vals(k)}
                vis[-1].extend(range(base, base + k))
                o["_vis"] = vis
                ops.append(o)
            elif r < 0.75:
                body = gen_ops(depth + 1, [[]])
                ops.append({"iso": True, "regions": [{"blocks": [{"hint": None, "ops": body}]}]})
            else:
                k = rng.choice([0, 1])
                base = counter[0]
                o = {"res": new_vals(k)}
                vis[-1].extend(range(base, base + k))
                o["_vis"] = vis
                o["regions"] = [gen_region(depth + 1, vis + [[]]) for _ in range(rng.choice([1, 1, 2]))]
                ops.append(o)
        return ops

    def gen_region(depth: int, vis: list[list[int]]) -> dict[str, Any]:
        nb = rng.choice([1, 1, 2, 3, 4])
        blocks = []
        entry_pred = rng.random() < 0.3
        for i in range(nb):
            na = rng.choice([0, 0, 1, 2]) if (i > 0 or rng.random() < 0.5) else 0
            base = counter[0]
            args = new_vals(na)
            vis[-1].extend(range(base, base + na))
            ops = gen_ops(depth, vis)
            succ = [j for j in range(nb) if (j != 0 or entry_pred) and rng.random() < 0.6]
            t = {"term": True, "succ": succ, "_vis": vis}
            blocks.append({"hint": rng.choice(blk_alpha), "args": args, "ops": ops + [t]})
        return {"blocks": blocks}

    spec = {"ops": gen_ops(0, [[]]), "lenient": True}

    def fill(ops: list[dict[str, Any]]) -> None:
        for o in ops:
            vis = o.pop("_vis", None)
            pool = [v for l in (vis or []) for v in l]
            if pool and rng.random() < 0.6:
                o["use"] = [rng.choice(pool) for _ in range(rng.randint(1, 3))]
            for r in o.get("regions", []):
                for b in r["blocks"]:
                    fill(b["ops"])

    fill(spec["ops"])
    return spec
