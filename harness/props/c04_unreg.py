"""C04 family `unreg`: modules carrying attributes and types of an UNREGISTERED dialect
(`#d.a<body>`, `!d.t<body>`, opaque form `#d<a body>`), whose body the parser keeps verbatim and
finds by scanning raw characters for the closing `>` (balanced `()[]{}<>`, string literals with
backslash escapes, `->`).

The IR is built through the API (no parser involved), from a JSON spec; the bodies come from a
small grammar of exactly the texts that scanner accepts: balanced brackets, string literals that
contain escaped quotes / backslashes / bracket characters / `>` / `->` / `//`, commas, nested
unregistered and builtin attributes.  The attributes sit in attribute dictionaries, properties,
result / operand / block-argument types and inside builtin containers (array, dictionary,
function type, tuple).  Each module goes through the round-trip oracle of the property and through
the skeleton leg.

spec = {"ops": [OP…]},  OP = {"attrs": {k: A}, "props": {k: A}, "res": [A…], "use": bool,
"args": [A…], "inner": {k: A}},  A = ["u", name, is_type, is_opaque, body] | ["arr", [A…]] | ["dict", {k: A}] |
["str", s] | ["int", n] | ["fn", [A…], [A…]] | ["tuple", [A…]] | ["i32"] | ["b", recipe of c06_values]
"""
from __future__ import annotations

import itertools
from typing import Any

# ---------------------------------------------------------------------------------------------
# spec → IR
# ---------------------------------------------------------------------------------------------


def build_attr(a: list) -> Any:
    from xdsl.dialects.builtin import (ArrayAttr, DictionaryAttr, FunctionType, IntegerAttr, StringAttr, TupleType,
                                       UnregisteredAttr, i32, i64)

    k = a[0]
    if k == "u":
        _, name, is_type, is_opaque, body = a
        cls = UnregisteredAttr.with_name_and_type(name, bool(is_type))
        return cls(name, bool(is_type), bool(is_opaque), body)
    if k == "arr":
        return ArrayAttr([build_attr(x) for x in a[1]])
    if k == "dict":
        return DictionaryAttr({n: build_attr(x) for n, x in a[1].items()})
    if k == "str":
        return StringAttr(a[1])
    if k == "int":
        return IntegerAttr(a[1], i64)
    if k == "fn":
        return FunctionType.from_lists([build_attr(x) for x in a[1]], [build_attr(x) for x in a[2]])
    if k == "tuple":
        return TupleType([build_attr(x) for x in a[1]])
    if k == "i32":
        return i32
    if k == "b":  # a builtin payload given as a recipe of props/c06_values.py (boundary-value catalogue)
        from props import c06_values as V

        return V.build(a[1])
    raise ValueError(a)


def build(spec: dict[str, Any]):
    """a `builtin.module` of unregistered operations `u.op`; an operation with `args` has a region
    whose entry block has arguments of these types, an operation with `use` takes the results of
    the previous operation as operands; `inner` = attributes of the operation inside that region"""
    from xdsl.dialects.builtin import ModuleOp, UnregisteredOp
    from xdsl.ir import Block, Region

    cls = UnregisteredOp.with_name("u.op")
    ops = []
    prev: list[Any] = []
    for o in spec["ops"]:
        regions = []
        if o.get("args"):
            blk = Block(arg_types=[build_attr(t) for t in o["args"]])
            blk.add_op(cls.create(operands=list(blk.args),
                                  attributes={k: build_attr(a) for k, a in o.get("inner", {}).items()}))
            regions.append(Region(blk))
        op = cls.create(
            operands=prev if o.get("use") else [],
            result_types=[build_attr(t) for t in o.get("res", [])],
            properties={k: build_attr(a) for k, a in o.get("props", {}).items()},
            attributes={k: build_attr(a) for k, a in o.get("attrs", {}).items()},
            regions=regions,
        )
        prev = list(op.results)
        ops.append(op)
    return ModuleOp(ops)


# ---------------------------------------------------------------------------------------------
# the body grammar
# ---------------------------------------------------------------------------------------------

# pieces of a string literal, as they stand in the text between the quotes
STR_PIECES = ['\\"', "\\\\", "]", ")", "}", ">", "[", "(", "{", "<", "->", ",", "a", " ", "//", "\\n", "=", "x"]
STR_CORE = ['\\"', "\\\\", "]", ">", "a"]

BUILTIN_TEXTS = ["i32", "42 : i64", "dense<[1, 2]> : tensor<2xi32>", "affine_map<(d0) -> (d0)>", "[1, 2]",
                 "{k = 1 : i32}", "(i32) -> i32", "unit", "-1", "1.5 : f32", "@sym", "tensor<2x?xf32>", "none"]
IDENTS = ["a", "key", "b_1", "x.y", "0x1F", "7"]
# line breaks and tabs are part of the verbatim body as well (the printer must not re-indent them)
SEPS = [", ", " ", ",", " : ", " = ", " -> ", "x", ", ", ",\n  ", "\n", " \t", ",\n\n"]
# bodies that span lines (deterministic part of the family)
MULTILINE_BODIES = ["a,\nb", "a,\n  b", "a\n", "\na", "[1,\n 2]", '"s",\n\n  {k = "v"}', "a,\r\nb", "a\tb", "a,\n\tb",
                    "(\n)", "a \n b\n  c\n    d", '"x" ,\n"]"']
BRACKETS = ["()", "[]", "{}", "<>"]


def gen_string(rng, max_pieces: int = 5) -> str:
    return '"' + "".join(rng.choice(STR_PIECES) for _ in range(rng.randint(0, max_pieces))) + '"'


def gen_item(rng, depth: int) -> str:
    r = rng.random()
    if r < 0.30:
        return gen_string(rng)
    if r < 0.45:
        return rng.choice(IDENTS)
    if r < 0.55:
        return rng.choice(BUILTIN_TEXTS)
    if depth <= 0:
        return rng.choice(IDENTS)
    if r < 0.85:
        b = rng.choice(BRACKETS)
        return b[0] + (gen_body(rng, depth - 1) if rng.random() < 0.9 else "") + b[1]
    if r < 0.95:
        sig = rng.choice("#!")
        return f"{sig}e.n<{gen_body(rng, depth - 1)}>"
    return rng.choice(["#e.m", "!e.v", '#e<o "q\\"]">', "!e<w [1]>"])


def gen_body(rng, depth: int) -> str:
    n = rng.randint(1, 3)
    out = gen_item(rng, depth)
    for _ in range(n - 1):
        out += rng.choice(SEPS) + gen_item(rng, depth)
    return out


def scan_ok(body: str) -> bool:
    """own transcription of the rule for a dialect symbol body (MLIR `parseDialectSymbolBody`): the
    text, followed by `>`, must end exactly at that `>`"""
    text = body + ">"
    closers = {">": "<", ")": "(", "]": "[", "}": "{"}
    stack: list[str] = []
    i, n = 0, len(text)
    while i < n:
        c = text[i]
        i += 1
        if c in "<([{":
            stack.append(c)
        elif c == "-" and i < n and text[i] == ">":
            i += 1
        elif c in closers:
            if not stack:
                return c == ">" and i == n
            if stack.pop() != closers[c]:
                return False
        elif c == '"':
            while True:
                if i >= n:
                    return False
                d = text[i]
                i += 1
                if d == "\\":
                    i += 1
                elif d == '"':
                    break
    return False


def unreg(rng, is_type: bool, depth: int = 2) -> list:
    """one unregistered attribute / type with a generated body (pretty, bodiless or opaque form)"""
    r = rng.random()
    while True:
        body = gen_body(rng, depth)
        if scan_ok(body):
            break
    if r < 0.08:
        return ["u", "d.n" if not is_type else "d.tn", int(is_type), 0, ""]
    if r < 0.25:
        # opaque form `#d<name body>`: the body starts where the name token ends
        lead = rng.choice([" ", "<>", '"', "(", " "])
        if lead == '"':
            body = gen_string(rng) + " " + body
        elif lead == "(":
            body = "(" + body + ")"
        elif lead == "<>":
            body = "<" + body + ">"
        else:
            body = " " + body
        return ["u", "d.o" if not is_type else "d.to", int(is_type), 1, body]
    return ["u", "d.a" if not is_type else "d.t", int(is_type), 0, body]


def random_spec(rng, n_ops: int, payloads: list | None = None) -> dict[str, Any]:
    """`payloads`: recipes of builtin attributes (boundary-value catalogue) placed next to the
    unregistered ones inside the containers"""
    ops = []

    def payload() -> list:
        return ["b", rng.choice(payloads)] if payloads else ["int", 7]

    for k in range(n_ops):
        o: dict[str, Any] = {"attrs": {}, "props": {}, "res": [], "args": []}
        for j in range(rng.randint(1, 3)):
            a = unreg(rng, rng.random() < 0.3)
            place = rng.random()
            if place < 0.2:
                a = ["arr", [["int", j], a, payload(), unreg(rng, False, 1)]]
            elif place < 0.35:
                a = ["dict", {"k": a, "after": ["str", "still \"here\""], "pay": payload()}]
            elif place < 0.45:
                t = unreg(rng, True, 1)
                a = ["fn", [t, ["i32"]], [t]]
            (o["props"] if rng.random() < 0.3 else o["attrs"])[f"a{j}"] = a
        o["attrs"]["after"] = ["str", "still here"]
        for _ in range(rng.randint(0, 2)):
            t = unreg(rng, True)
            r = rng.random()
            if r < 0.15:
                t = ["tuple", [t, ["i32"]]]
            elif r < 0.3:
                t = ["fn", [t], [["i32"], t]]
            o["res"].append(t)
        if rng.random() < 0.3:
            o["args"] = [unreg(rng, True, 1), ["i32"]]
        o["use"] = k > 0 and rng.random() < 0.5
        ops.append(o)
    return {"ops": ops}


def exhaustive_strings(max_len: int):
    """every string literal over STR_CORE up to `max_len` pieces, each followed by a bracketed
    group (so that a scanner that loses track of the string runs into brackets)"""
    for n in range(max_len + 1):
        for ps in itertools.product(STR_CORE, repeat=n):
            yield '"' + "".join(ps) + '"'


def spec_of_bodies(bodies: list[str], is_type: bool) -> dict[str, Any]:
    """one operation per body; attribute bodies as attribute + property, type bodies as result type"""
    ops = []
    for b in bodies:
        u = ["u", "d.t" if is_type else "d.a", int(is_type), 0, b]
        if is_type:
            ops.append({"res": [u], "attrs": {"after": ["str", "x"]}})
        else:
            ops.append({"attrs": {"cfg": u, "after": ["str", "x"]}, "props": {"p": u}})
    return {"ops": ops}


def nested_spec(bodies: list[str]) -> dict[str, Any]:
    """the bodies on an operation inside the region of another one (`args` gives the outer operation
    a region; its inner operation carries the types as block arguments), as attribute and as type"""
    return {"ops": [{"inner": {f"a{i}": ["u", "d.a", 0, 0, b] for i, b in enumerate(bodies)},
                     "args": [["u", "d.t", 1, 0, b] for b in bodies]}]}


def sub_specs(spec: dict[str, Any]):
    """smaller candidates of a failing spec: single operations, then single entries of them"""
    for o in spec["ops"]:
        yield {"ops": [dict(o, use=False)]}
    for o in spec["ops"]:
        for field in ("attrs", "props"):
            for k, a in o.get(field, {}).items():
                yield {"ops": [{field: {k: a}}]}
        for t in o.get("res", []):
            yield {"ops": [{"res": [t]}]}
        for t in o.get("args", []):
            yield {"ops": [{"args": [t]}]}
        for k, a in o.get("inner", {}).items():
            yield {"ops": [{"args": [["i32"]], "inner": {k: a}}]}
