"""C08 — attribute equality and hashing form a consistent value semantics."""
from __future__ import annotations

import dataclasses
import enum
import glob
import re
import struct
from collections.abc import Mapping
from typing import Any

from vp import core

from props import c08_floats as FC

META = {
    "title": "Attribute equality and hashing form a consistent value semantics",
    "category": "proof",
    "design_ref": "DESIGN.md §5 C08",
    "lean_modules": ["XdslProofs.C08"],
    "text": (
        "Lean model XdslModel/AttrValue.lean: an attribute is a tree over payload leaves (int, bytes, str, enum, "
        "None, FloatData bit pattern) with dataclass nodes tagged by class identity, tuples, and frozenset/dict "
        "nodes in key-sorted normal form; V.eq / V.hash follow the generated dataclass __eq__/__hash__ and the "
        "(fixed) bit-pattern FloatData.__eq__/__hash__.  Theorems: eq decides structural identity (eq_iff), hence "
        "is reflexive/symmetric/transitive; eq → equal hash; construction is a congruence and independent of dict "
        "insertion order; any difference in the payload sequence, in particular 0.0/-0.0 or two NaN bit patterns "
        "under any nesting, makes eq false; OperationInfo eq is an equivalence consistent with its hash; the "
        "unfixed float comparison is shown to violate the property (legacy_* counterexamples).  The hand model is "
        "tied to /repo by encoding every generated attribute (all builtin kinds with float corner cases, dialect "
        "attributes printed from the .mlir corpus and re-parsed in two fresh Contexts, UnregisteredAttr classes "
        "built twice, CSE OperationInfo of generated ops), each built twice, and comparing Python ==/hash== with "
        "the model verdicts on all pairs of every group, next to a direct oracle of the property sentence.  "
        "Hash equality is kept apart from equality: the model hash is exact where CPython collides systematically "
        "(pyIntHash), theorems hash_collision_ne / hash_collision_mersenne_ne / OpInfo.hash_collision_ne / "
        "OpInfo.eq_refines / HashOnly.opInfoEq_counterexample show that colliding payloads under any nesting hash "
        "equally, are unequal, and that a CSE key comparison trusting the hash merges arith.constant -1 and -2; the "
        "harness finds the colliding attribute pairs of every payload kind by bucketing candidates by their real hash() "
        "and builds operations differing only in such values (attributes, properties, result types), checked on "
        "OperationInfo and on the KnownOps dictionary.  The hand-written bf16 encoder is modelled (bf16Encode) with "
        "theorems bf16Encode_nan_sign / _nan_is_nan / _nan_payload / _decode / _nearest and tied line by line; every "
        "packable float type is compared bit-exactly with an independent codec (harness/props/c08_floats.py: formats "
        "written down from the APFloat definitions, exact rational rounding) through unpack / iter_unpack / pack / "
        "pack_into / FloatAttr / DenseArrayBase.from_list / DenseIntOrFPElementsAttr.from_list / dense and array "
        "literals with hexadecimal elements / raw dense strings.  Same parameters in every argument form a constructor "
        "accepts (float | FloatData | payload of another attribute | width for the type, int | IntAttr, str | StringAttr | "
        "ArrayAttr, int | IntAttr shapes, list | tuple data) must give one value with one hash.  Cross-interpreter leg: attributes "
        "hashed and pickled by the check are loaded in a child interpreter with another string-hash seed and compared with the "
        "attributes built there from the same recipes (equal => equal hashes, mutual set / dict membership)."
    ),
    "technique": "Lean 4 proofs over a tree model of attribute values + all-pairs differential correspondence with real attributes",
    "level_note": (
        "Trusted: Lean kernel; hand-written model XdslModel/AttrValue.lean (tied by correspondence only); the "
        "encoder in harness/props/c08.py (reads dataclass fields; FloatData as struct.pack('<d') bits; class identity as "
        "token). Hash values are idealised: Python int hash is exact, SipHash of buffers and the tuple hash are "
        "treated as injective — a Python-only hash coincidence between unequal values is tolerated and counted "
        "(hash collisions are not forbidden by the property). Not demanded: equality of attributes built from "
        "different parameters that happen to denote the same value is checked against the model only. Excluded: "
        "attributes whose payload holds objects with hand-written __eq__/__hash__ other than FloatData, raw Python "
        "floats, IntEnum/Flag members (reported as 'unencodable', still covered by the direct oracle); ops with "
        "regions in the OperationInfo leg (structural equivalence is C03); contexts with dynamically registered "
        "IRDL dialects. Additional direct checks per generated attribute: hash()/== must not raise, no payload container may be a "
        "bytearray/list/dict/set, and a FloatAttr must hold type.unpack(type.pack(parameter)) recomputed without shared state "
        "(history independence of construction; the first construction order per type inside one process is fixed by the generator, "
        "a cache warmed before the check starts is not controlled). Independent float codec: exact for zeros, finite values "
        "(nearest, ties to even, double rounding through binary32 for bf16 as documented), infinities, overflow; NaN contract per family: "
        "f64 bit for bit; f32 and bf16 keep the sign and the leading payload bits with the quiet bit set (C conversion / the documented "
        "`quiet-NaN preservation; matches LLVM APFloat` of BFloat16Type._encode); f16 keeps the sign with the canonical payload (CPython "
        "PyFloat_Pack2); the APFloat-described reduced formats (tf32, f8*, f6*, f4*) carry NaN as the canonical math.nan, so any NaN pattern "
        "of the format is admitted there and nothing is demanded of NaN / zero parameters where the format has no NaN / no zero; f80 / f128 "
        "are not packable (no codec). Sequence parameters are handed over as list / tuple / generator / ArrayAttr where the constructor "
        "converts its argument (TupleType, FusedLoc, ArrayAttr). Argument forms: only forms named in the constructor's own signature "
        "(union-typed parameters of the builtin dialect) count as 'the same parameters'. Cross-interpreter leg: an attribute loaded from a "
        "pickle in another interpreter is an attribute of that interpreter, so 'equal attributes have equal hashes' is demanded of it and "
        "the attribute built there; NOT demanded: that a pickle loads at all or loads to an equal value (counted: DenseResourceAttr, "
        "dynamically created UnregisteredAttr classes). One child process per run, seeds proven different by a probe string."
    ),
    "rule": (
        "A case is an ordered pair (i<j) of attribute (or op) objects inside one group; every recipe of a group is "
        "built twice, so each group holds equal-but-distinct objects and near misses. Non-trivial = the two objects "
        "are distinct Python objects of the same class name (equal or differing only in payload), or their Python "
        "hashes coincide. Distinct = distinct (normalised term, normalised term) pair. Groups: exhaustive "
        "corner-pattern families for f16/bf16/f32/f64/f80/f128 FloatAttr and FloatData (signed zeros, subnormals, "
        "infinities, quiet/signalling/negative NaNs with payloads), integer families per width/signedness incl. "
        "hash-colliding values (-1/-2, multiples of 2^61-1), str/bytes incl. PEP 393 widths, arrays, dictionaries "
        "(permuted insertion orders), dense arrays/elements, symbol refs, types, unregistered attributes, builtin "
        "texts and corpus attribute texts parsed in fresh Contexts, random recipe trees with single-leaf mutations, "
        "and generated op families for OperationInfo. Every float type class of the builtin dialect (f16 … f128, tf32, all "
        "f8*/f6*/f4*) is enumerated: FloatAttr via constructor and via parser (decimal / hex literals) with both signed "
        "zeros in both construction orders (which zero and which route is first in the process alternates per type), "
        "reserved encodings, overflow/underflow parameters; dense arrays / dense elements over each element type via "
        "from_list, list literals and hex strings. Hash-collision families: attribute recipes of every payload kind with "
        "systematically colliding CPython hashes (ints -1/-2 and v + k(2^61-1) for every integer type with twins, IntAttr, arrays / "
        "dictionaries / dense arrays of them, integral floats next to ints, empty buffers and containers), paired by real hash() "
        "bucket; operations differing only in such a pair as attribute / property / arith.constant value / swapped across two keys / "
        "result type. Float codec leg: per packable float type all bit patterns up to 8 bits (16 bits: the whole exponent-all-ones "
        "region + corners + sample in quick, all in thorough), parameters = NaNs of both signs with quiet / signalling / high / low-only "
        "payloads, infinities, zeros, rounding midpoints and neighbours, overflow thresholds, random. Sequence-argument kinds family. "
        "Argument-form families: per float type class the parameters 0.1, -1/3, an f32 rounding midpoint, 1e9+1, -0.0, a NaN with payload, "
        "each as float / FloatData / f64 attribute payload / type-as-width; integers (incl. values normalised by the type) as int / IntAttr / width; "
        "IntegerType, SymbolRefAttr, shaped types, UnregisteredAttr, dense from_list in their alternative forms; random groups re-form one sub-recipe. "
        "Pickle leg: every (recipe, pickle before hashing, pickle after hashing) shipped to the child counts as one non-trivial case."
    ),
    "trusted_base": [
        "correspondence harness harness/props/c08.py (encoder of attribute objects into model terms; all-pairs differential)",
        "hand-written Lean model XdslModel/AttrValue.lean of dataclass eq/hash, FloatData (fixed) and OperationInfo",
        "assumption: no accidental SipHash / tuple-hash collisions (Python-only collisions are counted, never failed)",
        "independent float codec harness/props/c08_floats.py (format table by MLIR type name, exact rational rounding, NaN contract per family)",
        "CPython pickle and PYTHONHASHSEED handling (cross-interpreter leg: one child process, same xDSL tree on its path)",
    ],
    "assumptions": [
        "CPython: dataclass(frozen=True, eq=True) __eq__ is class identity + field-tuple ==; __hash__ is hash of the field tuple",
        "CPython 64-bit int hash = value mod (2^61-1) with sign, -1 -> -2; str hash is the hash of its PEP 393 buffer",
        "the C conversions double<->float of this platform keep the sign and the leading payload bits of a NaN and set the quiet bit "
        "(struct.pack('<f') / unpack); PyFloat_Pack2 gives sign | 0x7E00 for NaN; struct raises OverflowError for finite values beyond f16 / f32",
    ],
    "budget": {"quick": 100, "thorough": 1200},
}

FLOATDATA_EQ = "xdsl.dialects.builtin.FloatData.__eq__"
FLOATDATA_HASH = "xdsl.dialects.builtin.FloatData.__hash__"
UNREG = "xdsl.dialects.builtin.UnregisteredAttr.with_name_and_type"
OPINFO = "xdsl.transforms.common_subexpression_elimination.OperationInfo"
RESOURCE = "xdsl.dialect_interfaces.op_asm.OpAsmDialectInterface.declare_resource"
FLOATATTR_INIT = "xdsl.dialects.builtin.FloatAttr.__init__"
CONSTRUCTOR_OF = {
    "dense": "xdsl.dialects.builtin.DenseIntOrFPElementsAttr.from_list",
    "densearr": "xdsl.dialects.builtin.DenseArrayBase.from_list",
    "float": FLOATATTR_INIT,
    "floattext": "xdsl.parser.attribute_parser.AttrParser.parse_optional_builtin_int_or_float_attr",
    "parse": "xdsl.parser.attribute_parser.AttrParser.parse_attribute",
    "array": "xdsl.dialects.builtin.ArrayAttr.__init__",
    "dict": "xdsl.dialects.builtin.DictionaryAttr.__init__",
    "bytes": "xdsl.dialects.builtin.BytesAttr",
    "tuple": "xdsl.dialects.builtin.TupleType",
    "fusedloc": "xdsl.dialects.builtin.FusedLoc",
}

# ---------------------------------------------------------------------------------------------
# floats as bit patterns
# ---------------------------------------------------------------------------------------------

def bits_of(x: float) -> int:
    return struct.unpack("<Q", struct.pack("<d", x))[0]


def float_of(bits: int) -> float:
    return struct.unpack("<d", struct.pack("<Q", bits))[0]


def hx(bits: int) -> str:
    return f"{bits:016x}"


def widen32(p: int) -> int:
    return bits_of(struct.unpack("<f", struct.pack("<I", p))[0])


def widen16(p: int) -> int:
    return bits_of(struct.unpack("<e", struct.pack("<H", p))[0])


def widenbf16(p: int) -> int:
    return widen32(p << 16)


F64_BITS = [
    0x0000000000000000, 0x8000000000000000, 0x0000000000000001, 0x8000000000000001,
    0x000FFFFFFFFFFFFF, 0x0010000000000000, 0x3FF0000000000000, 0xBFF0000000000000,
    0x3FF0000000000001, 0x3FB999999999999A, 0x400921FB54442D18, 0x7FEFFFFFFFFFFFFF,
    0x7FF0000000000000, 0xFFF0000000000000, 0x7FF8000000000000, 0xFFF8000000000000,
    0x7FF8000000000001, 0x7FF0000000000001, 0x7FF4000000000000, 0x7FFFFFFFFFFFFFFF,
    0xFFFFFFFFFFFFFFFF, 0x36A0000000000000, 0x3810000000000000, 0x47EFFFFFE0000000,
    0x3FF0000010000000, 0x3E7AD7F29ABCAF48,
]
F32_PATTERNS = [
    0x00000000, 0x80000000, 0x00000001, 0x80000001, 0x007FFFFF, 0x00800000, 0x3F800000, 0xBF800000,
    0x3F800001, 0x3DCCCCCD, 0x7F7FFFFF, 0x7F800000, 0xFF800000, 0x7FC00000, 0xFFC00000, 0x7FC00001,
    0x7F800001, 0x7FA00000, 0x7FFFFFFF, 0xFFFFFFFF,
]
F16_PATTERNS = [
    0x0000, 0x8000, 0x0001, 0x8001, 0x03FF, 0x0400, 0x3C00, 0xBC00, 0x3C01, 0x2E66, 0x7BFF, 0x7C00,
    0xFC00, 0x7E00, 0xFE00, 0x7E01, 0x7C01, 0x7D00, 0x7FFF, 0xFFFF,
]
BF16_PATTERNS = [
    0x0000, 0x8000, 0x0001, 0x8001, 0x007F, 0x0080, 0x3F80, 0xBF80, 0x3F81, 0x3DCD, 0x7F7F, 0x7F80,
    0xFF80, 0x7FC0, 0xFFC0, 0x7FC1, 0x7F81, 0x7FA0, 0x7FFF, 0xFFFF,
]
FLOAT_TYPES = ["f16", "bf16", "f32", "f64"]


def corner_bits(ty: str) -> list[int]:
    if ty == "f16":
        return [widen16(p) for p in F16_PATTERNS]
    if ty == "bf16":
        return [widenbf16(p) for p in BF16_PATTERNS]
    if ty == "f32":
        return [widen32(p) for p in F32_PATTERNS]
    return list(F64_BITS)


def is_nan_bits(b: int) -> bool:
    return (b >> 52) & 0x7FF == 0x7FF and (b & ((1 << 52) - 1)) != 0


# ---------------------------------------------------------------------------------------------
# recipes -> real attributes
# ---------------------------------------------------------------------------------------------

_DIALECTS = None


def fresh_context():
    global _DIALECTS
    from xdsl.context import Context

    if _DIALECTS is None:
        from xdsl.dialects import get_all_dialects

        _DIALECTS = get_all_dialects()
    c = Context(allow_unregistered=True)
    for n, f in _DIALECTS.items():
        c.register_dialect(n, f)
    return c


def parse_attr_fresh(text: str):
    from xdsl.parser import Parser

    p = Parser(fresh_context(), text)
    a = p.parse_attribute()
    tok = getattr(p, "_current_token", None)
    if tok is not None and getattr(tok.kind, "name", "EOF") != "EOF":
        raise ValueError(f"attribute text not consumed entirely: {text!r}")
    return a


def as_kind(xs: list[Any], kind: str, array_ok: bool = True) -> Any:
    """the same sequence of attributes as a list / tuple / generator / ArrayAttr argument"""
    from xdsl.dialects.builtin import ArrayAttr

    if kind == "list":
        return list(xs)
    if kind == "tuple":
        return tuple(xs)
    if kind == "gen":
        return (x for x in xs)
    if kind == "array" and array_ok:
        return ArrayAttr(xs)
    raise core.InfraError(f"unknown argument kind {kind}")


def build(r: Any):
    """Build the real attribute described by recipe `r` (a JSON list). Every call constructs afresh."""
    from xdsl.dialects import builtin as b

    k = r[0]
    if k == "i":
        return b.IntegerType(r[1], getattr(b.Signedness, r[2].upper()))
    if k == "index":
        return b.IndexType()
    if k in ("f16", "bf16", "f32", "f64", "f80", "f128"):
        return {"f16": b.Float16Type, "bf16": b.BFloat16Type, "f32": b.Float32Type, "f64": b.Float64Type,
                "f80": b.Float80Type, "f128": b.Float128Type}[k]()
    if k == "fty":
        return getattr(b, r[1])()
    if k == "floattext":
        return parse_attr_fresh(f"{r[1]} : {getattr(b, r[2])().name}")
    if k == "nonetype":
        return b.NoneType()
    if k == "tensor":
        return b.TensorType(build(r[2]), r[1])
    if k == "vector":
        return b.VectorType(build(r[2]), r[1])
    if k == "memref":
        return b.MemRefType(build(r[2]), r[1])
    if k == "fn":
        return b.FunctionType.from_lists([build(x) for x in r[1]], [build(x) for x in r[2]])
    if k == "tuple":
        return b.TupleType(as_kind([build(x) for x in r[1]], r[2] if len(r) > 2 else "tuple"))
    if k == "fusedloc":
        return b.FusedLoc(as_kind([build(x) for x in r[1]], r[2] if len(r) > 2 else "tuple"), build(r[3]) if len(r) > 3 else b.NoneAttr())
    if k == "loc":
        return b.UnknownLoc() if r[1] == "unknown" else b.FileLineColLoc(b.StringAttr(r[1]), b.IntAttr(r[2]), b.IntAttr(r[3]))
    if k == "fnattrs":
        return b.FunctionType.from_attrs(b.ArrayAttr([build(x) for x in r[1]]), b.ArrayAttr([build(x) for x in r[2]]))
    if k == "complex":
        return b.ComplexType(build(r[1]))
    if k == "int":
        return b.IntegerAttr(r[1], build(r[2]))
    if k == "intattr":
        return b.IntAttr(r[1])
    if k == "float":
        return b.FloatAttr(float_of(int(r[1], 16)), build(r[2]))
    if k == "fdata":
        return b.FloatData(float_of(int(r[1], 16)))
    if k == "str":
        return b.StringAttr(r[1])
    if k == "bytes":
        return b.BytesAttr(bytes.fromhex(r[1]))
    if k == "unit":
        return b.UnitAttr()
    if k == "array":
        return b.ArrayAttr(as_kind([build(x) for x in r[1]], r[2] if len(r) > 2 else "list", array_ok=False))
    if k == "dict":
        return b.DictionaryAttr({key: build(x) for key, x in r[1]})
    if k == "densearr":
        ty = build(r[1])
        vals = [float_of(int(v, 16)) if isinstance(v, str) else v for v in r[2]]
        return b.DenseArrayBase.from_list(ty, vals)
    if k == "dense":
        ty = build(r[1])
        vals = [float_of(int(v, 16)) if isinstance(v, str) else v for v in r[2]]
        return b.DenseIntOrFPElementsAttr.from_list(ty, vals)
    if k == "symref":
        return b.SymbolRefAttr(r[1], list(r[2]))
    if k == "opaque":
        return b.OpaqueAttr(b.StringAttr(r[1]), b.StringAttr(r[2]), build(r[3]))
    if k == "unreg":
        cls = b.UnregisteredAttr.with_name_and_type(r[1], bool(r[2]))
        return cls(r[1], bool(r[2]), bool(r[3]), r[4])
    if k == "parse":
        return parse_attr_fresh(r[1])
    if k == "via":
        return build_via(r[1], r[2])
    raise core.InfraError(f"unknown recipe {r!r}")


# the alternative forms in which a constructor of the builtin dialect accepts the SAME parameter
# (`float | FloatData`, `int | IntAttr`, `int | IntegerType` widths, `str | StringAttr`, shapes of
# `int | IntAttr`, list / tuple data): recipe ["via", form, r] has the parameters of recipe r.
ARG_FORMS: dict[str, tuple[str, ...]] = {
    "float": ("fdata", "f64value", "width", "fdata+width"),
    "int": ("intattr", "width", "intattr+width"),
    "i": ("intattr",),
    "symref": ("strattr", "arrayattr"),
    "tensor": ("intattr", "gen"),
    "vector": ("intattr", "gen"),
    "memref": ("intattr", "gen", "arrayattr"),
    "unreg": ("attrs",),
    "densearr": ("tuple",),
    "dense": ("tuple",),
}
FLOAT_WIDTH_OF = {"f16": 16, "f32": 32, "f64": 64, "f80": 80, "f128": 128,
                  "Float16Type": 16, "Float32Type": 32, "Float64Type": 64, "Float80Type": 80, "Float128Type": 128}


def forms_of(r: Any) -> list[str]:
    """the argument forms applicable to recipe r"""
    k = r[0]
    out = []
    for f in ARG_FORMS.get(k, ()):
        if k == "float" and "width" in f and (r[2][-1] if r[2][0] == "fty" else r[2][0]) not in FLOAT_WIDTH_OF:
            continue
        if k == "int" and "width" in f and not (r[2][0] == "i" and r[2][2] == "signless"):
            continue
        out.append(f)
    return out


def build_via(form: str, r: Any):
    from xdsl.dialects import builtin as b

    k = r[0]
    if k == "float":
        x = float_of(int(r[1], 16))
        ty: Any = build(r[2])
        if "width" in form:
            ty = FLOAT_WIDTH_OF[r[2][-1] if r[2][0] == "fty" else r[2][0]]
        if form.startswith("fdata"):
            return b.FloatAttr(b.FloatData(x), ty)
        if form == "f64value":   # the payload object of another (f64) float attribute, as a width-changing fold hands it over
            return b.FloatAttr(b.FloatAttr(x, b.Float64Type()).value, ty)
        if form == "width":
            return b.FloatAttr(x, ty)
    if k == "int":
        v: Any = b.IntAttr(r[1]) if form.startswith("intattr") else r[1]
        t: Any = r[2][1] if "width" in form else build(r[2])
        return b.IntegerAttr(v, t)
    if k == "i" and form == "intattr":
        return b.IntegerType(b.IntAttr(r[1]), b.SignednessAttr(getattr(b.Signedness, r[2].upper())))
    if k == "symref":
        if form == "strattr":
            return b.SymbolRefAttr(b.StringAttr(r[1]), [b.StringAttr(x) for x in r[2]])
        if form == "arrayattr":
            return b.SymbolRefAttr(r[1], b.ArrayAttr([b.StringAttr(x) for x in r[2]]))
    if k in ("tensor", "vector", "memref"):
        cls = {"tensor": b.TensorType, "vector": b.VectorType, "memref": b.MemRefType}[k]
        if form == "intattr":
            return cls(build(r[2]), [b.IntAttr(d) for d in r[1]])
        if form == "gen":
            return cls(build(r[2]), (d for d in r[1]))
        if form == "arrayattr" and k == "memref":
            return cls(build(r[2]), b.ArrayAttr([b.IntAttr(d) for d in r[1]]))
    if k == "unreg" and form == "attrs":
        cls = b.UnregisteredAttr.with_name_and_type(r[1], bool(r[2]))
        return cls(b.StringAttr(r[1]), b.IntAttr(int(bool(r[2]))), b.IntAttr(int(bool(r[3]))), b.StringAttr(r[4]))
    if k in ("densearr", "dense") and form == "tuple":
        ty = build(r[1])
        vals = tuple(float_of(int(v, 16)) if isinstance(v, str) else v for v in r[2])
        return (b.DenseArrayBase if k == "densearr" else b.DenseIntOrFPElementsAttr).from_list(ty, vals)
    raise core.InfraError(f"unknown argument form {form!r} for recipe {r!r}")


def via_nodes(r: Any) -> list[Any]:
    """all argument-form wrappers inside a recipe, innermost first"""
    out: list[Any] = []
    if isinstance(r, list):
        for x in r:
            out += via_nodes(x)
        if len(r) == 3 and r[0] == "via":
            out.append(r)
    return out


def canon(r: Any) -> Any:
    """the parameters a recipe denotes: argument-form wrappers removed at every depth"""
    if isinstance(r, list):
        if len(r) == 3 and r[0] == "via":
            return canon(r[2])
        return [canon(x) for x in r]
    return r


_FLOAT_TYPES: list[tuple[str, Any]] | None = None


def builtin_float_types() -> list[tuple[str, Any]]:
    """(class name, instance) of every concrete float type class the builtin dialect defines;
    classes that cannot be instantiated without arguments are skipped."""
    global _FLOAT_TYPES
    if _FLOAT_TYPES is None:
        import inspect

        from xdsl.dialects import builtin as b

        base = getattr(b, "_FloatType", None) or b.AnyFloat
        out = []
        for name, c in sorted(vars(b).items()):
            if inspect.isclass(c) and name == c.__name__ and inspect.isclass(base) and issubclass(c, base) and not inspect.isabstract(c):
                try:
                    out.append((name, c()))
                except Exception:  # noqa: BLE001
                    continue
        _FLOAT_TYPES = out
    return _FLOAT_TYPES


def float_type_recipe(name: str) -> list[Any]:
    short = {"Float16Type": "f16", "BFloat16Type": "bf16", "Float32Type": "f32", "Float64Type": "f64",
             "Float80Type": "f80", "Float128Type": "f128"}
    return [short[name]] if name in short else ["fty", name]


def rounds_on_construction(ty: Any) -> bool:
    from xdsl.dialects import builtin as b

    kinds = [b.Float64Type, b.Float32Type, b.Float16Type, b.BFloat16Type]
    if hasattr(b, "ReducedPrecisionFloatType"):
        kinds.append(b.ReducedPrecisionFloatType)
    return isinstance(ty, tuple(kinds))


def type_pattern_values(ty: Any, thorough: bool) -> list[int]:
    """f64 bit patterns of the values of interesting bit patterns of a reduced-precision type
    (both zeros, smallest/largest subnormal and normal, one, the reserved encodings), decoded by the
    type's own `unpack`."""
    sem = getattr(ty, "SEMANTICS", None)
    if sem is None:
        return []
    w = ty.bitwidth
    size = ty.compile_time_size
    m, e = sem.mantissa_bits, sem.exponent_bits
    maxm, maxe = (1 << m) - 1, (1 << e) - 1
    mags = {0, 1, 2, maxm, maxm + 1, (sem.exponent_bias << m) & ((1 << (m + e)) - 1), ((sem.exponent_bias << m) + 1) & ((1 << (m + e)) - 1),
            maxe << m, (maxe << m) | 1, (maxe << m) | (maxm >> 1) + 1 if m else maxe << m, (maxe << m) | maxm, ((maxe << m) | maxm) - 1,
            ((maxe - 1) << m) | maxm}
    if thorough and w <= 8:
        mags = set(range(1 << (m + e)))
    pats = set()
    for p in mags:
        p &= (1 << (m + e)) - 1
        pats.add(p)
        if sem.has_sign:
            pats.add(p | (1 << (m + e)))
    out = []
    for p in sorted(pats):
        try:
            v = ty.unpack(p.to_bytes(size, "little"), 1)[0]
        except Exception:  # noqa: BLE001
            continue
        out.append(bits_of(v))
    return out


def float_param(r: Any) -> tuple[Any, float] | None:
    """(type, Python float handed to FloatAttr.__init__) of a float recipe"""
    if r[0] == "float":
        return build(r[2]), float_of(int(r[1], 16))
    if r[0] == "floattext":
        from xdsl.dialects import builtin as b

        ty = getattr(b, r[2])()
        lit = r[1]
        if lit[:2].lower() == "0x":
            return ty, ty.unpack(int(lit, 16).to_bytes(ty.compile_time_size, "little"), 1)[0]
        return ty, float(lit)
    return None


def expected_float(r: Any) -> tuple[Any, float] | None:
    """(type, value the attribute must hold) for a float recipe, recomputed through the type's own
    pack/unpack (no shared state); None when not applicable or the parameters are rejected."""
    try:
        tx = float_param(r)
        if tx is None:
            return None
        ty, x = tx
        if rounds_on_construction(ty):
            x = ty.unpack(ty.pack((x,)), 1)[0]
        return ty, x
    except Exception:  # noqa: BLE001
        return None


def independent_float(r: Any) -> tuple[Any, FC.Fmt, int, FC.Enc, FC.Dec | None] | None:
    """(type, format, parameter bits, admissible encodings, value to hold) of a float recipe by the
    independent codec (harness/props/c08_floats.py; nothing of the type's own pack/unpack except the
    decoding of a hexadecimal literal, which the codec leg checks pattern by pattern)"""
    try:
        if r[0] == "floattext" and r[1][:2].lower() == "0x":
            from xdsl.dialects import builtin as b

            ty = getattr(b, r[2])()
            fmt = FC.FORMATS.get(ty.name)
            if fmt is None or fmt.width != ty.bitwidth:
                return None
            d = FC.decode(fmt, int(r[1], 16))
            if d.bits is None:
                return None
            xb = d.bits
        else:
            tx = float_param(r)
            if tx is None:
                return None
            ty, x = tx
            fmt = FC.FORMATS.get(ty.name)
            if fmt is None or fmt.width != ty.bitwidth:
                return None
            xb = bits_of(x)
        if not rounds_on_construction(ty):
            return None
        enc, dec = FC.stored_after_construction(fmt, xb)
        return ty, fmt, xb, enc, dec
    except Exception:  # noqa: BLE001
        return None


def type_encoding(ty: Any, x: float) -> str | None:
    try:
        return bytes(ty.pack((x,))).hex()
    except Exception:  # noqa: BLE001
        return None


def param_class(xb: int) -> str:
    if FC.is_nan64(xb):
        return "NaN"
    if FC.is_inf64(xb):
        return "infinity"
    if xb & ((1 << 63) - 1) == 0:
        return "zero"
    return "finite value"


def encoding_defect(fmt: FC.Fmt, xb: int, enc: FC.Enc, got: Any) -> str:
    """short stable class of a wrong encoding; `got` = int pattern or exception class name"""
    pc = param_class(xb)
    if isinstance(got, str):
        return f"{pc}: raises {got}"
    if enc.raises:
        return f"{pc}: {enc.raises} expected, a pattern is returned"
    if pc == "NaN":
        if not FC.is_nan_pattern(fmt, got):
            return "NaN encoded as a non-NaN pattern"
        want = enc.exact
        if want is not None and fmt.has_sign and (got ^ want) >> (fmt.e + fmt.m) & 1:
            return "NaN sign not kept"
        return "NaN payload not kept"
    want = enc.exact
    if want is not None and fmt.has_sign and (got ^ want) == 1 << (fmt.e + fmt.m):
        return f"{pc}: sign not kept"
    return f"{pc}: not the nearest representable value (ties to even) / wrong special-value handling"


def qual_type(ty: Any) -> str:
    return f"{type(ty).__module__}.{type(ty).__qualname__}"


def own_pack(ty: Any, x: float) -> Any:
    try:
        return int.from_bytes(bytes(ty.pack((x,))), "little")
    except Exception as e:  # noqa: BLE001
        return core.exc_name(e)


def blame_float(ty: Any, fmt: FC.Fmt, xb: int, enc: FC.Enc, held_bits: int | None) -> tuple[str, str, dict]:
    """which of pack / unpack / FloatAttr.__init__ is at fault for a wrongly stored value"""
    got = own_pack(ty, float_of(xb))
    obs: dict[str, Any] = {"parameter_f64_bits": hx(xb), "type.pack": hex(got) if isinstance(got, int) else got,
                           "independent_encoding": sorted(hex(p) for p in enc.pats)[:8] if enc.pats is not None else (enc.raises or FC.ANY),
                           "rule": enc.why}
    ok = (isinstance(got, str) and enc.raises == got) or (isinstance(got, int) and enc.raises is None and enc.admits(got))
    if not ok:
        return qual_type(ty) + ".pack", encoding_defect(fmt, xb, enc, got), obs
    if isinstance(got, int):
        try:
            back = bits_of(ty.unpack(got.to_bytes(ty.compile_time_size, "little"), 1)[0])
            obs["type.unpack(type.pack)"] = hx(back)
            if not FC.decode(fmt, got).admits(back):
                return qual_type(ty) + ".unpack", "pattern decoded to a different value", obs
        except Exception as e:  # noqa: BLE001
            return qual_type(ty) + ".unpack", f"raises {core.exc_name(e)}", obs
    if held_bits is not None:
        obs["held_f64_bits"] = hx(held_bits)
    return FLOATATTR_INIT, "stored value is not decode(encode(parameter)) of the type's format", obs


MUTABLE = (bytearray, list, dict, set)
# float recipes built so far in this process, per float type (construction history for replays)
_BUILT_FLOATS: dict[str, list[Any]] = {}


def float_history_key(r: Any) -> str | None:
    r = canon(r)
    if r[0] == "float":
        return str(r[2])
    if r[0] == "floattext":
        return str(float_type_recipe(r[2]))
    return None


def find_mutable(o: Any, depth: int = 0) -> tuple[Any, Any] | None:
    """(holder, payload) of the first payload container that is not an immutable value"""
    if depth > 40:
        return None
    if dataclasses.is_dataclass(o) and not isinstance(o, type):
        kids = [getattr(o, f.name) for f in dataclasses.fields(o)]
    elif isinstance(o, (tuple, frozenset)):
        kids = list(o)
    elif isinstance(o, Mapping):
        kids = list(o.values())
    else:
        return None
    for k in kids:
        if type(k) in MUTABLE:
            return o, k
        hit = find_mutable(k, depth + 1)
        if hit is not None:
            return hit
    return None


def history_before(r: Any) -> list[Any]:
    """the first float attributes of the same type built in this process before `r` (what a
    construction cache would have seen), shortest prefix first"""
    h = _BUILT_FLOATS.get(float_history_key(r) or "", [])
    k = h.index(r) if r in h else len(h)
    return h[:k][:4]


def constructor_of(r: Any) -> str:
    if r[0] == "via":
        r = r[2]
    return CONSTRUCTOR_OF.get(r[0], "xdsl.ir.core.Attribute")


# ---------------------------------------------------------------------------------------------
# encoder: real object -> model term
# ---------------------------------------------------------------------------------------------

class Unencodable(Exception):
    pass


def _generated(fn: Any) -> bool:
    code = getattr(fn, "__code__", None)
    return code is not None and code.co_filename == "<string>"


_SAN = re.compile(r"[^A-Za-z0-9_.<>\[\]-]")


class Encoder:
    """Terms for the Lean model (`by_identity=True`: class token = identity of the class object,
    containers in construction order) or for the payload oracle (`by_identity=False`: class token =
    qualified name, dict/frozenset sorted)."""

    def __init__(self, by_identity: bool):
        self.by_identity = by_identity
        self.tokens: dict[int, tuple[type, str]] = {}
        self.names: dict[str, int] = {}
        self.ok_cls: dict[int, tuple[type, bool]] = {}

    def cls_token(self, cls: type) -> str:
        base = _SAN.sub("_", f"{cls.__module__}.{cls.__qualname__}")
        if not self.by_identity:
            return base
        hit = self.tokens.get(id(cls))
        if hit is not None:
            return hit[1]
        n = self.names.get(base, 0)
        self.names[base] = n + 1
        tok = base if n == 0 else f"{base}#{n}"
        self.tokens[id(cls)] = (cls, tok)
        return tok

    def dataclass_like(self, cls: type) -> bool:
        hit = self.ok_cls.get(id(cls))
        if hit is None:
            ok = dataclasses.is_dataclass(cls) and _generated(cls.__eq__) and _generated(cls.__hash__)
            hit = (cls, ok)
            self.ok_cls[id(cls)] = hit
        return hit[1]

    def term(self, o: Any) -> list[str]:
        out: list[str] = []
        self._enc(o, out, 0)
        return out

    def _enc(self, o: Any, out: list[str], depth: int) -> None:
        if depth > 60:
            raise Unencodable("too deep")
        if o is None:
            out.append("n")
            return
        if isinstance(o, enum.Enum):
            if isinstance(o, (int, float)) or isinstance(o, enum.Flag):
                raise Unencodable("int-like enum " + type(o).__name__)
            key = o.value if isinstance(o, str) else o.name
            out.append(f"e:{self.cls_token(type(o)).replace(':', '_')}:" + ".".join(f"{ord(c):x}" for c in key))
            return
        if isinstance(o, bool):
            out.append(f"i{int(o)}")
            return
        if type(o) is int:
            out.append(f"i{o}")
            return
        if type(o) is str:
            out.append("u" + ".".join(f"{ord(c):x}" for c in o))
            return
        if type(o) is bytes:
            out.append("b" + o.hex())
            return
        if type(o) is float:
            raise Unencodable("raw float")
        if type(o) is tuple:
            out.append("(t")
            for x in o:
                self._enc(x, out, depth + 1)
            out.append(")")
            return
        if isinstance(o, frozenset):
            parts = []
            for x in o:
                p: list[str] = []
                self._enc(x, p, depth + 1)
                if len(p) != 1:
                    raise Unencodable("frozenset of non-leaf")
                parts.append(p[0])
            if not self.by_identity:
                parts.sort()
            out.append("(s")
            out.extend(parts)
            out.append(")")
            return
        if isinstance(o, Mapping):
            items = []
            for key, v in o.items():
                kp: list[str] = []
                self._enc(key, kp, depth + 1)
                if len(kp) != 1:
                    raise Unencodable("dict with non-leaf key")
                vp: list[str] = []
                self._enc(v, vp, depth + 1)
                items.append((kp[0], vp))
            if not self.by_identity:
                items.sort(key=lambda kv: kv[0])
            out.append("(d")
            for kk, vv in items:
                out.append(kk)
                out.extend(vv)
            out.append(")")
            return
        cls = type(o)
        if cls.__module__ == "xdsl.dialects.builtin" and cls.__qualname__ == "FloatData":
            try:
                out.append("f" + struct.pack("<d", o.data)[::-1].hex())
            except (struct.error, OverflowError, TypeError) as e:
                raise Unencodable("FloatData payload not packable") from e
            return
        if self.dataclass_like(cls):
            out.append("(o:" + self.cls_token(cls))
            for f in dataclasses.fields(o):
                if f.compare:
                    self._enc(getattr(o, f.name), out, depth + 1)
            out.append(")")
            return
        raise Unencodable("custom __eq__/__hash__ or unknown payload: " + cls.__qualname__)


def safe_term(enc: Encoder, o: Any) -> str | None:
    try:
        return " ".join(enc.term(o))
    except Unencodable:
        return None


# ---------------------------------------------------------------------------------------------
# diagnosis (which function is at fault) and shrinking
# ---------------------------------------------------------------------------------------------

def fields_of(o: Any) -> list[Any] | None:
    if dataclasses.is_dataclass(o) and not isinstance(o, type):
        return [getattr(o, f.name) for f in dataclasses.fields(o) if f.compare]
    if type(o) is tuple:
        return list(o)
    if isinstance(o, Mapping):
        return [v for _, v in sorted(o.items(), key=lambda kv: str(kv[0]))]
    return None


def qual(cls: type) -> str:
    return f"{cls.__module__}.{cls.__qualname__}"


def is_floatdata(o: Any) -> bool:
    return qual(type(o)) == "xdsl.dialects.builtin.FloatData"


def float_signature(a: Any, b: Any) -> str:
    try:
        x, y = bits_of(a.data), bits_of(b.data)
    except Exception:  # noqa: BLE001
        return "distinct bit patterns compare equal"
    if x | y == 1 << 63 and x != y:
        return "0.0 and -0.0 compare equal"
    if is_nan_bits(x) and is_nan_bits(y):
        return "NaNs with different bit patterns compare equal"
    return "distinct bit patterns compare equal"


def diagnose(a: Any, b: Any, what: str, nenc: Encoder) -> tuple[str, str]:
    """Find the innermost pair of sub-objects showing the same symptom; return (call_site, signature).
    what: 'equal-but-distinct' | 'unequal-same-construction' | 'hash-differs'"""
    for _ in range(80):
        if type(a) is not type(b):
            if qual(type(a)) == qual(type(b)):
                from xdsl.dialects.builtin import UnregisteredAttr

                if isinstance(a, UnregisteredAttr):
                    return UNREG, "attributes of one unregistered name from separately created classes are not equal"
                return qual(type(a)), "class object re-created: same construction, distinct classes"
            return qual(type(a)) + ".__eq__", what
        if what == "unequal-same-construction" and qual(type(a)) == "xdsl.dialects.builtin.DenseResourceAttr":
            return RESOURCE, "same text parsed twice declares two differently named resources (process-wide blob storage)"
        if is_floatdata(a) and is_floatdata(b):
            if what == "equal-but-distinct":
                return FLOATDATA_EQ, float_signature(a, b)
            if what == "hash-differs":
                return FLOATDATA_HASH, "equal float attributes hash differently"
            return FLOATDATA_EQ, "same float payload compares unequal"
        fa, fb = fields_of(a), fields_of(b)
        if fa is None or fb is None or len(fa) != len(fb):
            break
        nxt = None
        for x, y in zip(fa, fb):
            if what == "equal-but-distinct":
                bad = safe_term(nenc, x) != safe_term(nenc, y) and x == y
            elif what == "hash-differs":
                try:
                    bad = x == y and hash(x) != hash(y)
                except TypeError:
                    bad = False
            else:
                bad = not (x == y)
            if bad:
                nxt = (x, y)
                break
        if nxt is None or (fields_of(nxt[0]) is None and not is_floatdata(nxt[0])):
            break  # the symptom is in a plain payload of `a`: blame the attribute class holding it
        a, b = nxt
    m = "__hash__" if what == "hash-differs" else "__eq__"
    return f"{qual(type(a))}.{m}", what


def sub_recipes(r: Any) -> list[Any]:
    k = r[0]
    if k == "via":
        return []
    if k in ("array", "tuple", "fusedloc"):
        return list(r[1])
    if k == "dict":
        return [x for _, x in r[1]]
    if k == "float":
        return [["fdata", r[1]]]
    if k in ("tensor", "vector", "memref"):
        return [r[2]]
    if k == "complex":
        return [r[1]]
    if k == "int":
        return [["intattr", r[1]], r[2]]
    if k == "fn":
        return list(r[1]) + list(r[2])
    return []


def shrink_pair(ra: Any, rb: Any, fails) -> tuple[Any, Any]:
    """descend into aligned sub-recipes while the pair still fails"""
    for _ in range(40):
        sa, sb = sub_recipes(ra), sub_recipes(rb)
        nxt = None
        if len(sa) == len(sb):
            for x, y in zip(sa, sb):
                try:
                    if fails(x, y):
                        nxt = (x, y)
                        break
                except Exception:  # noqa: BLE001
                    continue
        if nxt is None:
            return ra, rb
        ra, rb = nxt
    return ra, rb


# ---------------------------------------------------------------------------------------------
# one group of attribute recipes: direct oracle + lines for the model
# ---------------------------------------------------------------------------------------------

class Batch:
    """accumulates protocol lines and expected implementation lines over many groups"""

    def __init__(self):
        self.lines: list[str] = []
        self.impl: list[str] = []
        self.origin: list[Any] = []  # per line: (kind, recipe/case info) for mismatch reports


def pair_case(ra: Any, rb: Any, extra: dict | None = None) -> dict:
    c = {"kind": "attr_pair", "a": ra, "b": rb}
    if extra:
        c.update(extra)
    return c


def describe(o: Any) -> str:
    try:
        return str(o)[:200]
    except Exception as e:  # noqa: BLE001
        return f"<unprintable {core.exc_name(e)}>"


def eval_group(ctx: core.Ctx, label: str, recipes: list[Any], batch: Batch) -> None:
    menc = Encoder(by_identity=True)
    nenc = Encoder(by_identity=False)
    objs: list[Any] = []
    recs: list[Any] = []
    twin: list[int] = []  # index of the object built from the same recipe
    for r in recipes:
        try:
            a1 = build(r)
            a2 = build(r)
        except core.InfraError:
            raise
        except Exception as e:  # noqa: BLE001  (invalid parameters: both builds reject them)
            ctx.count(f"build_rejected.{core.exc_name(e)}")
            continue
        i = len(objs)
        objs += [a1, a2]
        recs += [r, r]
        twin += [i + 1, i]
        hk = float_history_key(r)
        if hk is not None:
            _BUILT_FLOATS.setdefault(hk, []).append(r)
    n = len(objs)
    if n == 0:
        return
    ctx.count(f"group.{label}")
    ctx.count("objects", n)
    brecs = [canon(r) for r in recs]   # the parameters: argument-form wrappers removed
    # attributes are immutable, hashable values: no mutable payload containers, hash()/== never raise
    broken: set[int] = set()
    for i, o in enumerate(objs):
        hit = find_mutable(o)
        if hit is not None and twin[i] > i:
            holder, payload = hit
            ctx.fail(constructor_of(recs[i]), f"mutable {type(payload).__name__} payload in {type(holder).__name__}",
                     {"kind": "attr_value", "a": recs[i], "check": "immutable-payload"},
                     f"the attribute holds a {type(payload).__name__} (mutable, unhashable) where an immutable bytes/tuple value is required",
                     {"a": describe(o), "holder": qual(type(holder)), "payload_type": type(payload).__name__}, "immutable payload (bytes / tuple / immutabledict)")
    H: list[Any] = []
    for i, o in enumerate(objs):
        try:
            H.append(hash(o))
        except Exception as e:  # noqa: BLE001
            H.append(None)
            broken.add(i)
            hit = find_mutable(o)
            why = f"{type(hit[1]).__name__} payload in {type(hit[0]).__name__}" if hit else "unhashable"
            if twin[i] > i:
                ctx.fail(constructor_of(recs[i]), f"hash() raises {core.exc_name(e)}: {why}",
                         {"kind": "attr_value", "a": recs[i], "check": "hashable"},
                         f"hash(attribute) raises {core.exc_name(e)}: equal attributes cannot have equal hashes, the attribute cannot key a dict/set (CSE, constraint sets)",
                         {"a": describe(o), "exception": f"{core.exc_name(e)}: {e}"[:200]}, "hash() returns an int")
    E = []
    for i in range(n):
        row = []
        for j in range(n):
            try:
                row.append(bool(objs[i] == objs[j]))
            except Exception as e:  # noqa: BLE001
                row.append(False)
                if i <= j:
                    ctx.fail(qual(type(objs[i])) + ".__eq__", f"== raises {core.exc_name(e)}", pair_case(recs[i], recs[j], {"check": "eq-total"}),
                             "comparing two attributes raises", {"exception": f"{core.exc_name(e)}: {e}"[:200]}, "== returns a bool")
        E.append(row)
    # the value a float attribute must hold, recomputed from its parameters through the type's own
    # encoding: independent of anything built before in this process
    XP: list[Any] = [None] * n
    for i in range(n):
        xp = expected_float(brecs[i]) if brecs[i][0] in ("float", "floattext") else None
        if xp is None:
            continue
        ty, want = xp
        try:
            have = objs[i].value.data
            hb, wb = bits_of(have), bits_of(want)
        except Exception:  # noqa: BLE001
            continue
        XP[i] = (qual(type(ty)), wb, type_encoding(ty, want))
        if hb != wb:
            zero = (hb | wb) == 1 << 63
            ctx.fail(FLOATATTR_INIT, "0.0 / -0.0 parameter stored with the other sign" if zero else "stored value is not the rounding of the parameter",
                     {"kind": "attr_value", "a": recs[i], "check": "float-payload", "built_before": history_before(recs[i])},
                     "the attribute built from these parameters holds a different value than the type's pack/unpack gives for them "
                     "(depends on what was built before in the process)",
                     {"a": describe(objs[i]), "held_f64_bits": hx(hb), "held_type_encoding": type_encoding(ty, have),
                      "expected_f64_bits": hx(wb), "expected_type_encoding": type_encoding(ty, want)},
                     "value == type.unpack(type.pack(parameter))")
    # the same by the independent codec of the float formats (not the type's own pack/unpack)
    IXP: list[Any] = [None] * n
    IBAD: set[int] = set()
    for i in range(n):
        if brecs[i][0] not in ("float", "floattext") or twin[i] < i:
            continue
        ind = independent_float(brecs[i])
        if ind is None:
            continue
        ty, fmt, xb, enc, dec = ind
        ctx.count("float_attrs_checked_by_independent_codec")
        try:
            hb = bits_of(objs[i].value.data)
        except Exception:  # noqa: BLE001
            continue
        if enc.raises:
            site, sig, obs = blame_float(ty, fmt, xb, enc, hb)
            if site.endswith(".pack"):
                ctx.fail(site, sig, {"kind": "float_codec", "type": type(ty).__name__, "route": "pack", "param": hx(xb)},
                         "the type encodes a parameter that its format cannot hold", obs, enc.raises)
            continue
        if dec is None:
            continue
        IXP[i] = IXP[twin[i]] = (fmt.name, dec.bits)
        if not dec.admits(hb):
            IBAD.update((i, twin[i]))
            site, sig, obs = blame_float(ty, fmt, xb, enc, hb)
            ctx.fail(site, sig, {"kind": "attr_value", "a": recs[i], "check": "float-codec"},
                     "the float attribute built from these parameters does not hold the value that the format of its type gives for them "
                     "(independent codec: nearest-even rounding, signed zeros, infinities, NaN sign/payload)",
                     dict(obs, a=describe(objs[i]), held_f64_bits=hx(hb)),
                     "held bits " + (hx(dec.bits) if dec.bits is not None else "of a NaN"))
    NT = [safe_term(nenc, o) for o in objs]
    MT = [safe_term(menc, o) for o in objs]
    for o, t in zip(objs, MT):
        if t is None:
            ctx.count("unencodable." + type(o).__name__)

    def fail_pair(i: int, j: int, what: str, desc: str, expected: str) -> None:
        site, sig = diagnose(objs[i], objs[j], what, nenc)
        ra, rb = recs[i], recs[j]
        if what == "equal-but-distinct":
            def still(x, y):
                p, q = build(x), build(y)
                return p == q and safe_term(nenc, p) != safe_term(nenc, q)
        elif what == "hash-differs":
            def still(x, y):
                p, q = build(x), build(y)
                return p == q and hash(p) != hash(q)
        else:
            def still(x, y):
                return canon(x) == canon(y) and not (build(x) == build(y))
        ra, rb = shrink_pair(ra, rb, still)
        try:
            p, q = build(ra), build(rb)
            obs = {"a": describe(p), "b": describe(q), "eq": bool(p == q), "hash_eq": hash(p) == hash(q),
                   "payload_a": safe_term(nenc, p), "payload_b": safe_term(nenc, q)}
        except Exception as e:  # noqa: BLE001
            obs = {"error": core.exc_name(e)}
        ctx.fail(site, sig, pair_case(ra, rb, {"check": what}), desc, obs, expected)

    # reflexivity, same construction, symmetry, eq => hash, payload-distinct => unequal
    for i in range(n):
        if not E[i][i]:
            ctx.fail(qual(type(objs[i])) + ".__eq__", "not reflexive", pair_case(recs[i], recs[i], {"check": "reflexive"}),
                     "x == x is False", {"a": describe(objs[i])}, "x == x")
        j = twin[i]
        if i < j:
            if not E[i][j] or not E[j][i]:
                fail_pair(i, j, "unequal-same-construction",
                          "two attributes built from the same parameters / parsed from the same text are not equal",
                          "equal (same construction parameters)")
            elif H[i] != H[j] and i not in broken and j not in broken:
                fail_pair(i, j, "hash-differs", "attributes built from the same parameters are equal but hash differently",
                          "hash(a) == hash(b) because a == b")
    for i in range(n):
        for j in range(i + 1, n):
            ctx.ev()
            if E[i][j] != E[j][i]:
                ctx.fail(qual(type(objs[i])) + ".__eq__", "not symmetric", pair_case(recs[i], recs[j], {"check": "symmetric"}),
                         "a == b differs from b == a", {"a==b": E[i][j], "b==a": E[j][i]}, "a == b iff b == a")
            if E[i][j] and XP[i] is not None and XP[j] is not None and XP[i][0] == XP[j][0] and XP[i][1:] != XP[j][1:]:
                x, y = XP[i][1], XP[j][1]
                sig = ("0.0 and -0.0 compare equal" if (x | y) == 1 << 63 and x != y else
                       "float attributes built from observably different parameters compare equal")
                ctx.fail(FLOATATTR_INIT, sig, pair_case(recs[i], recs[j], {"check": "equal-but-distinct-parameters"}),
                         "two float attributes of one type whose parameters encode differently in that type compare equal",
                         {"a": describe(objs[i]), "b": describe(objs[j]), "encoding_a": XP[i][2], "encoding_b": XP[j][2]}, "a != b")
            if (E[i][j] and i not in IBAD and j not in IBAD and IXP[i] is not None and IXP[j] is not None and IXP[i][0] == IXP[j][0] and IXP[i][1] is not None
                    and IXP[j][1] is not None and IXP[i][1] != IXP[j][1]):
                x, y = IXP[i][1], IXP[j][1]
                sig = ("0.0 and -0.0 compare equal" if (x | y) == 1 << 63 and x != y else
                       "NaNs the type distinguishes compare equal" if FC.is_nan64(x) and FC.is_nan64(y) else
                       "float attributes built from observably different parameters compare equal")
                ctx.fail(FLOATATTR_INIT, sig, pair_case(recs[i], recs[j], {"check": "equal-but-distinct-parameters"}),
                         "two float attributes of one type compare equal although the format of the type keeps their parameters apart "
                         "(independent codec)", {"a": describe(objs[i]), "b": describe(objs[j]), "must_hold_a": hx(x), "must_hold_b": hx(y)}, "a != b")
            if j != twin[i] and brecs[i] == brecs[j] and recs[i] != recs[j] and i < twin[i] and j < twin[j]:
                # the same parameters handed to the constructor in two of the forms its signature accepts
                ctx.count("same_parameters_two_argument_forms")
                if not E[i][j] or not E[j][i] or (H[i] != H[j] and i not in broken and j not in broken):
                    ra, rb = recs[i], recs[j]
                    for node in via_nodes(ra) + via_nodes(rb):   # innermost re-formed parameter that shows it by itself
                        try:
                            p_, q_ = build(node[2]), build(node)
                            if not (p_ == q_) or hash(p_) != hash(q_):
                                ra, rb = node[2], node
                                break
                        except Exception:  # noqa: BLE001
                            continue
                    ctx.fail(constructor_of(rb), "the same parameter in two accepted argument forms gives unequal attributes",
                             pair_case(ra, rb, {"check": "unequal-same-construction"}),
                             "two attributes built from the same parameters, handed over in two argument forms the constructor accepts "
                             "(float | FloatData, int | IntAttr, width | type, str | StringAttr, ...), are not equal / hash differently",
                             {"a": describe(objs[i]), "b": describe(objs[j]), "eq": E[i][j], "hash_eq": H[i] == H[j],
                              "payload_a": NT[i], "payload_b": NT[j]}, "equal, equal hashes (same construction parameters)")
            if i in broken or j in broken:
                continue
            if E[i][j] and H[i] != H[j] and j != twin[i]:
                fail_pair(i, j, "hash-differs", "equal attributes hash differently", "hash(a) == hash(b) because a == b")
            if E[i][j] and NT[i] is not None and NT[j] is not None and NT[i] != NT[j]:
                fail_pair(i, j, "equal-but-distinct", "attributes whose payloads differ observably compare equal",
                          "a != b because the payload bits differ")
            if objs[i] is not objs[j] and (type(objs[i]).__qualname__ == type(objs[j]).__qualname__ or H[i] == H[j]):
                ctx.nt(hash((NT[i] or describe(objs[i]), NT[j] or describe(objs[j]))))
    # transitivity over all triples: with reflexivity and symmetry, transitive iff equal rows
    rows = [frozenset(j for j in range(n) if E[i][j]) for i in range(n)]
    for i in range(n):
        for j in rows[i]:
            if rows[j] != rows[i]:
                kk = sorted(rows[i] ^ rows[j])
                k = kk[0]
                # a == b, and exactly one of a == c, b == c
                ctx.fail(diagnose(objs[i], objs[j], "equal-but-distinct", nenc)[0], "not transitive",
                         {"kind": "attr_triple", "a": recs[i], "b": recs[j], "c": recs[k], "check": "transitive"},
                         "a == b but a == c differs from b == c",
                         {"a==b": E[i][j], "a==c": E[i][k], "b==c": E[j][k]}, "a == b and b == c imply a == c")
                break
    # lines for the model
    idx: dict[int, int] = {}
    batch.lines.append("reset")
    batch.impl.append("ok")
    batch.origin.append(None)
    for i in range(n):
        if MT[i] is None or i in broken:
            continue
        idx[i] = len(idx)
        batch.lines.append("def " + MT[i])
        batch.impl.append(f"ok {idx[i]}")
        batch.origin.append(("def", recs[i]))
    for i in range(n):
        if i not in idx:
            continue
        for j in range(i, n):
            if j not in idx:
                continue
            batch.lines.append(f"cmp {idx[i]} {idx[j]}")
            batch.impl.append(f"eq {int(E[i][j])} heq {int(H[i] == H[j])}")
            batch.origin.append(("cmp", recs[i], recs[j]))
    if len(ctx.samples) < 4 and n >= 4:
        ctx.sample({"group": label, "a": recs[0], "b": recs[2], "python": {"eq": E[0][2], "hash_eq": H[0] == H[2]},
                    "term_a": MT[0], "term_b": MT[2]})


def compare_with_model(ctx: core.Ctx, batch: Batch, model_name: str = "attr_value") -> None:
    if not batch.lines:
        return
    model = ctx.model(model_name, batch.lines)
    ctx.count("model_lines", len(batch.lines))
    for k, (imp, mod) in enumerate(zip(batch.impl, model)):
        if imp is None:
            # model-only probe: would a comparison that trusts the hash merge this pair of unequal ops?
            if mod == "eq 1":
                ctx.count("op_pairs_a_hash_trusting_comparison_would_merge")
            continue
        if imp == mod:
            continue
        if imp.startswith("eq 0 heq 1") and mod.startswith("eq 0 heq 0"):
            # unequal values whose Python hashes coincide in a way the idealised model hash does not
            # mirror: a hash collision, which the property does not forbid
            ctx.count("python_only_hash_collisions")
            continue
        org = batch.origin[k]
        j = max(q for q in range(k + 1) if batch.lines[q] == "reset")
        defs = [l for l in batch.lines[j:k] if l.startswith("def ")]
        case: dict[str, Any] = {"kind": "model_lines", "line": batch.lines[k]}
        if org and org[0] in ("cmp", "cmpop"):
            case.update({"a": org[1], "b": org[2]})
            ids = [int(x) for x in batch.lines[k].split()[1:3]]
            if org[0] == "cmp":
                case["lines"] = ["reset", defs[ids[0]], defs[ids[1]], "cmp 0 1"]
        elif org:
            case["a"] = org[1]
        ctx.mismatch(f"correspondence:C08/{model_name}", case, imp, mod,
                     "Python ==/hash== verdict differs from the Lean model of the (fixed) value semantics")
        break


# ---------------------------------------------------------------------------------------------
# generators
# ---------------------------------------------------------------------------------------------

SIGN = ["signless", "signed", "unsigned"]
M61 = (1 << 61) - 1


def int_values(w: int, sg: str) -> list[int]:
    if sg == "unsigned":
        lo, hi = 0, (1 << w) - 1
    elif sg == "signed":
        lo, hi = -(1 << (w - 1)), (1 << (w - 1)) - 1
    else:
        lo, hi = -(1 << (w - 1)), (1 << w) - 1
    cand = {lo, lo + 1, -2, -1, 0, 1, 2, hi - 1, hi, (1 << (w - 1)) - 1, 1 << (w - 1), M61, M61 + 1, -M61, 2 * M61, M61 - 1, -M61 - 1}
    return sorted(v for v in cand if lo <= v <= hi)


def fixed_groups() -> list[tuple[str, list[Any]]]:
    g: list[tuple[str, list[Any]]] = []
    # FloatAttr families: every corner pattern of the type's own precision
    for ty in FLOAT_TYPES:
        g.append((f"float.{ty}", [["float", hx(b), [ty]] for b in corner_bits(ty)]))
    # f64 patterns pushed through every narrower type (rounding merges payloads; overflow is rejected)
    for ty in ("f16", "bf16", "f32"):
        g.append((f"float.round.{ty}", [["float", hx(b), [ty]] for b in F64_BITS]))
    g.append(("float.wide", [["float", hx(b), [ty]] for ty in ("f80", "f128") for b in F64_BITS[:18]]))
    g.append(("floatdata", [["fdata", hx(b)] for b in F64_BITS]))
    zeros_nans = [0x0, 0x8000000000000000, 0x7FF8000000000000, 0x7FF8000000000001, 0xFFF8000000000000, 0x3FF0000000000000]
    g.append(("float.across_types", [["float", hx(b), [ty]] for ty in FLOAT_TYPES + ["f80"] for b in zeros_nans]))
    g.append(("float.vs_data", [["fdata", hx(b)] for b in zeros_nans] + [["float", hx(b), ["f64"]] for b in zeros_nans]
              + [["int", 0, ["i", 64, "signless"]], ["intattr", 0], ["bytes", "0000000000000000"], ["bytes", "0000000000000080"]]))
    # integers
    for w in (1, 8, 16, 32, 64, 128):
        rec = []
        for sg in SIGN:
            rec += [["int", v, ["i", w, sg]] for v in int_values(w, sg)]
        g.append((f"int.w{w}", rec[:44]))
    g.append(("int.index", [["int", v, ["index"]] for v in int_values(64, "signed")]))
    g.append(("int.across", [["int", v, t] for v in (0, 1, -1, 127) for t in (["i", 8, "signless"], ["i", 8, "signed"], ["i", 16, "signless"],
                                                                           ["i", 64, "signless"], ["index"])]
              + [["intattr", v] for v in (0, 1, -1, 127)]))
    g.append(("intattr", [["intattr", v] for v in (0, 1, -1, -2, 2, M61 - 1, M61, M61 + 1, -M61, -M61 - 1, 2 * M61, 2 * M61 + 1, 1 << 64, -(1 << 64), 1 << 200)]))
    # strings / bytes (PEP 393 widths, str/bytes sharing a buffer)
    strs = ["", "a", "b", "ab", "ba", "\x00", "é", "aé", "Ā", "aĀ", "😀", "a😀", " ", "a b", "\n", "i1", "n", "(t", ")"]
    byts = ["", "61", "62", "6162", "00", "e9", "61e9", "0001", "61000001", "00f60100", "6100000000f60100", "20", "0a", "ff", "00ff"]
    g.append(("str", [["str", s] for s in strs]))
    g.append(("bytes", [["bytes", h] for h in byts]))
    g.append(("str.vs.bytes", [["str", s] for s in strs[:12]] + [["bytes", h] for h in byts[:11]] + [["intattr", 0], ["unit"]]))
    g.append(("symref", [["symref", "a", []], ["symref", "a", ["b"]], ["symref", "a", ["b", "c"]], ["symref", "b", []], ["symref", "ab", []],
                         ["symref", "a", ["bc"]], ["str", "a"], ["array", [["str", "a"]]], ["opaque", "a", "b", ["nonetype"]],
                         ["opaque", "a", "b", ["i", 32, "signless"]], ["opaque", "a", "c", ["nonetype"]], ["opaque", "b", "b", ["nonetype"]]]))
    # containers
    z, nz = ["float", hx(0), ["f32"]], ["float", hx(1 << 63), ["f32"]]
    n1, n2 = ["float", hx(0x7FF8000000000000), ["f64"]], ["float", hx(0x7FF8000000000001), ["f64"]]
    one = ["int", 1, ["i", 32, "signless"]]
    g.append(("array", [["array", []], ["array", [z]], ["array", [nz]], ["array", [z, nz]], ["array", [nz, z]], ["array", [n1]], ["array", [n2]],
                        ["array", [n1, n2]], ["array", [["array", [z]]]], ["array", [["array", [nz]]]], ["array", [["array", []]]], ["array", [one]],
                        ["array", [one, one]], ["array", [["intattr", 1]]], ["array", [["unit"]]], ["dict", []], ["unit"], z, nz, n1, n2,
                        ["array", [["str", "a"], one]], ["array", [one, ["str", "a"]]], ["tuple", []], ["tuple", [["f32"]]], ["array", [["f32"]]]]))
    g.append(("dict", [["dict", []], ["dict", [["a", z]]], ["dict", [["a", nz]]], ["dict", [["a", z], ["b", nz]]], ["dict", [["b", nz], ["a", z]]],
                       ["dict", [["a", nz], ["b", z]]], ["dict", [["b", z], ["a", nz]]], ["dict", [["a", n1]]], ["dict", [["a", n2]]],
                       ["dict", [["a", one], ["b", one], ["c", z]]], ["dict", [["c", z], ["b", one], ["a", one]]], ["dict", [["b", one], ["c", z], ["a", one]]],
                       ["dict", [["a", one], ["b", one], ["c", nz]]], ["dict", [["a", ["dict", [["x", z]]]]]], ["dict", [["a", ["dict", [["x", nz]]]]]],
                       ["dict", [["b", one]]], ["dict", [["a", one]]], ["dict", [["", one]]], ["dict", [["Ā", one]]], ["dict", [["a", ["array", [z]]]]],
                       ["array", [["str", "a"], z]], ["dict", [["ab", one]]], ["dict", [["a", one], ["a b", one]]], ["dict", [["a b", one], ["a", one]]]]))
    # dense
    zh, nzh, n1h, n2h, oneh = hx(0), hx(1 << 63), hx(0x7FF8000000000000), hx(0x7FF8000000000001), hx(0x3FF0000000000000)
    da = []
    for ty in (["f32"], ["f64"], ["f16"]):
        da += [["densearr", ty, vs] for vs in ([], [zh], [nzh], [zh, nzh], [nzh, zh], [n1h], [n2h], [oneh], [oneh, oneh])]
    g.append(("densearray.float", da))
    g.append(("densearray.int", [["densearr", ["i", w, "signless"], vs] for w in (8, 32, 64) for vs in ([], [0], [1], [-1], [255], [0, 0], [1, 0], [0, 1], [127], [-128])]
              + [["bytes", "00"], ["bytes", "ff"]]))
    de = []
    for ty in (["f32"], ["f64"]):
        de += [["dense", ["tensor", [2], ty], vs] for vs in ([zh], [nzh], [zh, zh], [zh, nzh], [nzh, zh], [n1h], [n2h], [n1h, n1h], [oneh], [oneh, oneh])]
        de += [["dense", ["vector", [2], ty], vs] for vs in ([zh], [nzh], [zh, zh])]
        de += [["dense", ["tensor", [1, 2], ty], vs] for vs in ([zh], [nzh])]
    g.append(("dense.float", de))
    g.append(("dense.int", [["dense", ["tensor", [2], ["i", w, "signless"]], vs] for w in (8, 32) for vs in ([0], [0, 0], [1], [1, 1], [-1], [255], [255, 255], [0, 1], [1, 0])]
              + [["dense", ["tensor", [2], ["index"]], vs] for vs in ([0], [0, 0], [1], [0, 1])]))
    # types
    tys: list[Any] = [["i", w, sg] for w in (1, 8, 32) for sg in SIGN] + [["index"], ["nonetype"]] + [[t] for t in FLOAT_TYPES + ["f80", "f128"]]
    tys += [[c, sh, el] for c in ("tensor", "vector", "memref") for sh in ([], [2], [2, 3], [3, 2]) for el in (["f32"], ["i", 32, "signless"])]
    g.append(("types.scalar_shaped", tys[:46]))
    g.append(("types.composite", [["fn", [], []], ["fn", [["f32"]], []], ["fn", [], [["f32"]]], ["fn", [["f32"]], [["f32"]]], ["fn", [["f32"], ["f32"]], []],
                                  ["fn", [["f64"]], []], ["tuple", []], ["tuple", [["f32"]]], ["tuple", [["f32"], ["f32"]]], ["tuple", [["tuple", []]]],
                                  ["complex", ["f32"]], ["complex", ["f64"]], ["complex", ["i", 32, "signless"]], ["array", []], ["array", [["f32"]]],
                                  ["tensor", [-1], ["f32"]], ["tensor", [1], ["f32"]], ["tensor", [1], ["complex", ["f32"]]], ["unit"], ["nonetype"], ["dict", []]]))
    # the same sequence parameter handed over as list / tuple / generator / ArrayAttr: one value, one hash
    f32r, i32r, i64r = ["f32"], ["i", 32, "signless"], ["i", 64, "signless"]
    seqs = [[], [f32r], [i32r, i64r]]
    locs = [[["loc", "unknown"]], [["loc", "unknown"], ["loc", "f.mlir", 1, 2]]]
    g.append(("ctor.sequence_argument_kinds",
              [["tuple", q, kd] for q in seqs for kd in ("tuple", "list", "array", "gen")]
              + [["array", q, kd] for q in seqs for kd in ("list", "tuple", "gen")]
              + [["fusedloc", q, kd] for q in locs for kd in ("tuple", "list", "array", "gen")]
              + [["fn", q, q] for q in seqs] + [["fnattrs", q, q] for q in seqs]))
    g += argument_form_groups()
    # unregistered attributes: class factory called once per build
    g.append(("unregistered", [["unreg", "foo.bar", 0, 0, "1"], ["unreg", "foo.bar", 0, 0, "2"], ["unreg", "foo.baz", 0, 0, "1"], ["unreg", "foo.bar", 1, 0, "1"],
                               ["unreg", "foo.bar", 0, 1, "1"], ["unreg", "foo.bar", 0, 0, ""], ["parse", "#foo.bar<1>"], ["parse", "!foo.bar<1>"],
                               ["parse", "#foo.bar<2>"], ["parse", "#foo.bar"], ["parse", "#foo<bar 1>"], ["str", "foo.bar"]]))
    texts = ["0.0 : f32", "-0.0 : f32", "0.0 : f64", "-0.0 : f64", "0x7FC00000 : f32", "0x7FC00001 : f32", "0xFFC00000 : f32", "0x7FF8000000000000 : f64",
             "0x7FF8000000000001 : f64", "0x7F800000 : f32", "1.0 : f32", "1.000000e+00 : f32", "1 : i32", "1 : i64", "true", "1 : i1", "-1 : i1",
             "unit", "\"a\"", "\"\\61\"", "[]", "[0.0 : f32]", "[-0.0 : f32]", "{}", "{a = 0.0 : f32}", "{a = -0.0 : f32}", "{a, b = 1 : i32}", "{b = 1 : i32, a}",
             "dense<0.0> : tensor<2xf32>", "dense<-0.0> : tensor<2xf32>", "dense<[0.0, -0.0]> : tensor<2xf32>", "dense<0x7FC00001> : tensor<1xf32>",
             "dense<0x7FC00000> : tensor<1xf32>", "array<f32: 0.0>", "array<f32: -0.0>", "array<i8: -1>", "array<i8: 255>", "@a::@b", "i32", "f32", "index",
             "tensor<2xf32>", "memref<2xf32>", "(i32) -> f32", "affine_map<(d0) -> (d0)>", "affine_map<(d0) -> (d0 + 0)>", "affine_map<(d0)[s0] -> (d0 + s0)>",
             "affine_set<(d0) : (d0 >= 0)>", "loc(unknown)", "strided<[1, 2], offset: 3>", "strided<[1, 2], offset: ?>", "opaque<\"a\", \"b\">",
             "#arith.fastmath<fast>", "#arith.fastmath<nnan,ninf>", "#arith.fastmath<ninf,nnan>", "#arith.fastmath<none>", "!llvm.ptr", "!llvm.struct<(i32, f32)>",
             "#llvm.linkage<internal>", "#builtin.int<1>", "#builtin.float_data<0.0>", "#builtin.float_data<-0.0>", "#builtin.float_data<1.5>",
             "complex<f32>", "vector<2xf32>", "!riscv.reg<a0>", "!riscv.reg", "!riscv.freg<fa0>", "!x86.reg<rax>", "#stencil.index<[1, 2]>", "!stencil.field<?x?xf32>",
             "#gpu<dim x>", "#gpu<dim y>", "#test.dyn<1>", "dense_resource<r> : tensor<1xi8>"]
    for k in range(0, len(texts), 26):
        g.append((f"parse.builtin_texts.{k // 26}", [["parse", t] for t in texts[k:k + 26]]))
    return g


# parameters that are NOT representable in the narrow float types (0.1, -1/3, a rounding midpoint of f32, 1e9 + 1),
# next to -0.0 and a NaN with payload
ARGFORM_FLOAT_BITS = [0x3FB999999999999A, 0xBFD5555555555555, 0x3FF0000010000000, 0x41CDCD6500400000, 1 << 63, 0x7FF8000000000001]


def with_forms(r: Any) -> list[Any]:
    return [r] + [["via", f, r] for f in forms_of(r)]


def argument_form_groups() -> list[tuple[str, list[Any]]]:
    """the same parameter handed to a constructor in every form its signature accepts: one value, one hash"""
    g: list[tuple[str, list[Any]]] = []
    # (floats: one group per float type class in float_type_groups)
    ints: list[Any] = []
    for w, sg, vs in ((8, "signless", (0, -1, 255, 127, -128)), (8, "unsigned", (0, 255)), (1, "signless", (0, 1, -1)),
                      (32, "signless", (0, -1, (1 << 32) - 1, 1 << 31)), (64, "signed", (-1, (1 << 63) - 1))):
        ints += [x for v in vs for x in with_forms(["int", v, ["i", w, sg]])]
    ints += [x for v in (0, -1, 1 << 70) for x in with_forms(["int", v, ["index"]])]
    for k in range(0, len(ints), 40):
        g.append(("ctor.argument_forms.int", ints[k:k + 40]))
    other: list[Any] = []
    for r in ([["i", w, sg] for w in (1, 8, 32) for sg in SIGN]
              + [["symref", "a", []], ["symref", "a", ["b"]], ["symref", "a", ["b", "c"]], ["symref", "é", ["Ā"]]]
              + [[c, sh, ["f32"]] for c in ("tensor", "vector", "memref") for sh in ([], [2], [2, 3])] + [["tensor", [-1, 2], ["f32"]]]
              + [["unreg", "foo.bar", 0, 0, "1"], ["unreg", "foo.bar", 1, 0, "1"], ["unreg", "foo.bar", 0, 1, "<1>"]]
              + [["densearr", ["f32"], [hx(0x3FB999999999999A), hx(1 << 63)]], ["densearr", ["i", 8, "signless"], [1, -1]],
                 ["dense", ["tensor", [2], ["f32"]], [hx(0x3FB999999999999A), hx(1 << 63)]], ["dense", ["tensor", [2], ["i", 8, "signless"]], [1, -1]]]):
        other += with_forms(r)
    for k in range(0, len(other), 40):
        g.append(("ctor.argument_forms.other", other[k:k + 40]))
    return g


def float_type_groups(thorough: bool) -> list[tuple[str, list[Any]]]:
    """Every float type class of the builtin dialect: FloatAttr through the constructor and through the
    parser (decimal and hexadecimal literals), both signed zeros in both construction orders
    (alternating per type which zero and which route comes first in the process), NaN / infinity /
    overflow / underflow parameters, the reserved bit patterns of the reduced-precision encodings;
    dense arrays and dense elements over the same element types via from_list, list literals and
    hex strings."""
    g: list[tuple[str, list[Any]]] = []
    pz, nz = 0, 1 << 63
    extras = [0x3FF0000000000000, 0xBFF0000000000000, 0x7FF8000000000000, 0xFFF8000000000000, 0x7FF0000000000000, 0xFFF0000000000000,
              0x3FB999999999999A, 0x41CDCD6500000000, 0xC1CDCD6500000000, 0x39B4484BFEEBC2A0, 0xB9B4484BFEEBC2A0, 0x4000000000000000,
              0x3FF8000000000000, 0x0000000000000001]
    inter_a: list[Any] = []
    inter_b: list[Any] = []
    dense_groups: list[tuple[str, list[Any]]] = []
    for idx, (name, ty) in enumerate(builtin_float_types()):
        tr = float_type_recipe(name)
        tn = ty.name
        zeros = [pz, nz] if idx % 2 == 0 else [nz, pz]
        vals: list[int] = []
        for b in zeros + type_pattern_values(ty, thorough) + extras:
            if b not in vals:
                vals.append(b)
        ctor = [["float", hx(b), tr] for b in vals]
        w = ty.bitwidth
        lits = (["0.0", "-0.0"] if idx % 4 == 2 else ["-0.0", "0.0"]) + ["1.0", "-1.0", "1.5", "0.1", "1.0e9", "-1.0e9", "1.0e-30", "0x0"]
        if w <= 64:
            lits += [hex(1 << (w - 1)), hex((1 << w) - 1), hex((1 << (w - 1)) - 1), hex(1), hex((1 << (w - 1)) | 1)]
        text = [["floattext", lit, name] for lit in lits]
        both = [["float", hx(b), tr] for b in zeros + extras[:6]]
        if idx % 4 >= 2:   # the parser sees this type's zeros first
            g.append((f"floattype.parse.{tn}", text + both))
            for k in range(0, len(ctor), 44):
                g.append((f"floattype.ctor.{tn}", ctor[k:k + 44]))
        else:
            for k in range(0, len(ctor), 44):
                g.append((f"floattype.ctor.{tn}", ctor[k:k + 44]))
            g.append((f"floattype.parse.{tn}", text + both))
        inter_a += [["float", hx(pz), tr]]
        inter_b += [["float", hx(nz), tr]]
        # dense attributes over this element type
        one, two, nan = hx(0x3FF0000000000000), hx(0x4000000000000000), hx(0x7FF8000000000000)
        zp, zn = hx(pz), hx(nz)
        d: list[Any] = [["densearr", tr, v] for v in ([], [zp], [zn], [zp, zn], [zn, zp], [one], [one, two], [two, one], [nan])]
        d += [["dense", ["tensor", [2], tr], v] for v in ([zp], [zn], [zp, zn], [zn, zp], [one, two], [one], [nan])]
        d += [["dense", ["vector", [2], tr], [one, two]]]
        d += [["parse", t] for t in (f"dense<[1.0, 2.0]> : tensor<2x{tn}>", f"dense<[0.0, -0.0]> : tensor<2x{tn}>", f"dense<[-0.0, 0.0]> : tensor<2x{tn}>",
                                     f"dense<-0.0> : tensor<2x{tn}>", f"dense<0.0> : tensor<2x{tn}>", f"dense<1.0> : tensor<2x{tn}>",
                                     f"array<{tn}: 1.0, 2.0>", f"array<{tn}: 0.0, -0.0>", f"array<{tn}: -0.0>", f"array<{tn}>")]
        try:
            size = ty.compile_time_size
            enc12 = bytes(ty.pack((1.0, 2.0))).hex()
            enc1 = bytes(ty.pack((1.0,))).hex()
            raw = ((1 << (w - 1)).to_bytes(size, "little") + ((1 << w) - 1).to_bytes(size, "little")).hex() if w <= 64 else None
            d += [["parse", f'dense<"0x{enc12}"> : tensor<2x{tn}>'], ["parse", f'dense<"0x{enc1}"> : tensor<2x{tn}>'],
                  ["parse", f'dense<"0x{"00" * (2 * size)}"> : tensor<2x{tn}>']]
            if raw:
                d += [["parse", f'dense<"0x{raw}"> : tensor<2x{tn}>']]
        except Exception:  # noqa: BLE001
            pass
        dense_groups.append((f"floattype.dense.{tn}", d))
        # the float parameter as Python float / FloatData / payload of an f64 attribute / with the type given as a width
        dense_groups.append((f"floattype.argument_forms.{tn}", [x for b in ARGFORM_FLOAT_BITS for x in with_forms(["float", hx(b), tr])]))
    # zeros of all types interleaved: +0 of T1, -0 of T2, ... then the opposite signs
    mix = [x for pair in zip(inter_a[0::2], inter_b[1::2]) for x in pair] + [x for pair in zip(inter_b[0::2], inter_a[1::2]) for x in pair]
    for k in range(0, len(mix), 40):
        g.append(("floattype.zeros.interleaved", mix[k:k + 40]))
    return g + dense_groups


LEAF_POOL: list[Any] = (
    [["float", hx(b), [ty]] for ty in ("f32", "f64") for b in (0x0, 1 << 63, 0x7FF8000000000000, 0x7FF8000000000001, 0x3FF0000000000000)]
    + [["int", v, ["i", 32, "signless"]] for v in (0, 1, -1, -2)] + [["int", 0, ["i", 64, "signless"]], ["int", 0, ["index"]]]
    + [["str", s] for s in ("", "a", "b")] + [["unit"], ["f32"], ["i", 32, "signless"], ["bytes", ""], ["bytes", "00"],
                                              ["symref", "a", []], ["intattr", 0], ["intattr", 1], ["fdata", hx(0)], ["fdata", hx(1 << 63)]]
)


def rand_float_bits(rng) -> int:
    r = rng.random()
    if r < 0.3:
        return rng.choice(F64_BITS)
    if r < 0.5:  # a NaN with a random payload and sign
        return (rng.getrandbits(1) << 63) | (0x7FF << 52) | rng.randrange(1, 1 << 52)
    if r < 0.6:  # subnormal
        return (rng.getrandbits(1) << 63) | rng.randrange(1, 1 << 52)
    return rng.getrandbits(64)


def rand_recipe(rng, depth: int) -> Any:
    r = rng.random()
    if depth <= 0 or r < 0.45:
        q = rng.random()
        if q < 0.5:
            return rng.choice(LEAF_POOL)
        if q < 0.7:
            ty = rng.choice(FLOAT_TYPES)
            b = rand_float_bits(rng) if ty == "f64" else rng.choice(corner_bits(ty))
            return ["float", hx(b), [ty]]
        if q < 0.85:
            w = rng.choice((1, 8, 16, 32, 64))
            sg = rng.choice(SIGN)
            return ["int", rng.choice(int_values(w, sg)), ["i", w, sg]]
        if q < 0.93:
            return ["str", "".join(rng.choice("ab\x00éĀ😀 ") for _ in range(rng.randint(0, 3)))]
        return ["bytes", bytes(rng.choice((0, 1, 0x61, 0xE9, 0xFF)) for _ in range(rng.randint(0, 4))).hex()]
    if r < 0.70:
        return ["array", [rand_recipe(rng, depth - 1) for _ in range(rng.randint(0, 3))]]
    if r < 0.90:
        keys = rng.sample(["a", "b", "c", "ab", "", "Ā"], rng.randint(0, 3))
        return ["dict", [[k, rand_recipe(rng, depth - 1)] for k in keys]]
    if r < 0.95:
        ty = rng.choice((["f32"], ["f64"], ["f16"], ["bf16"]))
        return ["densearr", ty, [hx(rng.choice(corner_bits(ty[0]))) for _ in range(rng.randint(0, 3))]]
    return ["dense", ["tensor", [2], ["f32"]], [hx(rng.choice(corner_bits("f32"))) for _ in range(rng.choice((1, 2)))]]


def mutate(rng, r: Any) -> Any:
    """a near miss: change one leaf / permute a dict / swap two array elements"""
    k = r[0]
    if k == "array" and r[1]:
        xs = list(r[1])
        q = rng.random()
        i = rng.randrange(len(xs))
        if q < 0.6:
            xs[i] = mutate(rng, xs[i])
        elif q < 0.8 and len(xs) > 1:
            j = rng.randrange(len(xs))
            xs[i], xs[j] = xs[j], xs[i]
        else:
            del xs[i]
        return ["array", xs]
    if k == "dict" and r[1]:
        items = [list(x) for x in r[1]]
        q = rng.random()
        if q < 0.5:
            rng.shuffle(items)
        else:
            i = rng.randrange(len(items))
            items[i][1] = mutate(rng, items[i][1])
        return ["dict", items]
    if k == "float":
        b = int(r[1], 16)
        q = rng.random()
        if q < 0.4:
            b ^= 1 << 63
        elif q < 0.7:
            b ^= 1 << rng.choice((0, 29, 42, 51))
        else:
            return ["float", r[1], [rng.choice(FLOAT_TYPES)]]
        return ["float", hx(b), r[2]]
    if k == "fdata":
        return ["fdata", hx(int(r[1], 16) ^ (1 << rng.choice((63, 0, 51))))]
    if k == "int":
        return ["int", r[1] + rng.choice((-1, 1)), r[2]] if rng.random() < 0.7 else ["int", r[1], ["i", 64, "signless"]]
    if k in ("densearr", "dense") and r[2]:
        vs = list(r[2])
        i = rng.randrange(len(vs))
        if isinstance(vs[i], str):
            vs[i] = hx(int(vs[i], 16) ^ (1 << 63))
        return [k, r[1], vs]
    if k == "str":
        return ["str", r[1] + "a"]
    return rng.choice(LEAF_POOL)


def reform(rng, r: Any) -> Any:
    """the same parameters with one sub-recipe (any depth) handed over in another argument form"""
    spots: list[tuple[int, ...]] = []

    def walk(x: Any, path: tuple[int, ...]) -> None:
        if not isinstance(x, list) or not x:
            return
        if isinstance(x[0], str) and x[0] != "via" and forms_of_safe(x):
            spots.append(path)
        for i, y in enumerate(x):
            if isinstance(y, list):
                walk(y, path + (i,))

    walk(r, ())
    if not spots:
        return r
    path = rng.choice(spots)

    def put(x: Any, path: tuple[int, ...]) -> Any:
        if not path:
            return ["via", rng.choice(forms_of_safe(x)), x]
        return [put(y, path[1:]) if i == path[0] else y for i, y in enumerate(x)]

    return put(r, path)


def forms_of_safe(x: Any) -> list[str]:
    try:
        return forms_of(x) if x[0] in ARG_FORMS and len(x) >= 3 else []
    except Exception:  # noqa: BLE001
        return []


def random_group(rng, size: int) -> list[Any]:
    out: list[Any] = []
    while len(out) < size:
        r = rand_recipe(rng, rng.randint(0, 3))
        out.append(r)
        if rng.random() < 0.3:
            out.append(reform(rng, r))
        m = r
        for _ in range(rng.randint(1, 3)):
            m = mutate(rng, m)
            out.append(m)
    return out[:size]


# ---------------------------------------------------------------------------------------------
# corpus: dialect attributes printed from parsed tests, re-parsed in fresh contexts
# ---------------------------------------------------------------------------------------------

def corpus_texts(ctx: core.Ctx, nfiles: int | None) -> dict[str, list[str]]:
    """class name -> distinct attribute texts harvested from the .mlir corpus"""
    from xdsl.parser import Parser

    files = sorted(glob.glob(str(core.REPO / "tests" / "**" / "*.mlir"), recursive=True))
    if nfiles is not None and nfiles < len(files):
        files = sorted(ctx.rng.sample(files, nfiles))
    by_cls: dict[str, dict[str, None]] = {}
    chunks = parsed = 0
    for f in files:
        if ctx.time_left() < 40:
            break
        try:
            src = open(f, encoding="utf-8").read()
        except OSError:
            continue
        for ch in src.split("// -----"):
            chunks += 1
            try:
                mod = Parser(fresh_context(), ch).parse_module()
            except Exception:  # noqa: BLE001  (negative tests, unparsable chunks)
                continue
            parsed += 1
            for op in mod.walk():
                attrs = list(op.attributes.values()) + list(op.properties.values()) + [r.type for r in op.results]
                for reg in op.regions:
                    for blk in reg.blocks:
                        attrs += [a.type for a in blk.args]
                for a in attrs:
                    try:
                        t = str(a)
                    except Exception:  # noqa: BLE001
                        continue
                    if "\n" in t or len(t) > 400:
                        continue
                    by_cls.setdefault(type(a).__name__, {}).setdefault(t, None)
    ctx.count("corpus.files", len(files))
    ctx.count("corpus.chunks", chunks)
    ctx.count("corpus.chunks_parsed", parsed)
    return {k: list(v) for k, v in by_cls.items()}


def corpus_groups(ctx: core.Ctx, nfiles: int | None, max_texts: int, per_group: int = 22) -> list[tuple[str, list[Any]]]:
    by_cls = corpus_texts(ctx, nfiles)
    ctx.count("corpus.attribute_classes", len(by_cls))
    ctx.count("corpus.distinct_texts", sum(len(v) for v in by_cls.values()))
    # round-robin over classes so that rare dialect attributes are all represented
    order = sorted(by_cls)
    ctx.rng.shuffle(order)
    for k in order:
        ctx.rng.shuffle(by_cls[k])
    picked: list[tuple[str, str]] = []
    rnd = 0
    while len(picked) < max_texts:
        added = False
        for k in order:
            if rnd < len(by_cls[k]):
                picked.append((k, by_cls[k][rnd]))
                added = True
                if len(picked) >= max_texts:
                    break
        if not added:
            break
        rnd += 1
    # group texts of the same class together (near misses), fill up groups across classes
    picked.sort(key=lambda kt: kt[0])
    groups = []
    for i in range(0, len(picked), per_group):
        part = picked[i:i + per_group]
        groups.append(("corpus." + part[0][0], [["parse", t] for _, t in part]))
    return groups


# ---------------------------------------------------------------------------------------------
# OperationInfo
# ---------------------------------------------------------------------------------------------

def build_op(r: Any, pool: list[Any]):
    """r = ["op", kind, attr items, prop items, result type recipes, operand indices]"""
    from xdsl.dialects.builtin import UnregisteredOp
    from xdsl.dialects.test import TestOp

    _, kind, attrs, props, tys, opnds = r
    a = {k: build(x) for k, x in attrs}
    p = {k: build(x) for k, x in props}
    t = [build(x) for x in tys]
    o = [pool[i] for i in opnds]
    if kind == "test":
        return TestOp(operands=o, result_types=t, attributes=a, properties=p)
    if kind.startswith("unreg:"):
        return UnregisteredOp.with_name(kind[6:]).create(operands=o, result_types=t, attributes=a, properties=p)
    if kind == "arith.constant":
        from xdsl.dialects.arith import ConstantOp

        return ConstantOp(p["value"])
    if kind == "arith.addf":
        from xdsl.dialects.arith import AddfOp

        return AddfOp(o[0], o[1])
    raise core.InfraError(f"unknown op recipe {r!r}")


def op_groups(rng, n_random: int) -> list[tuple[str, list[Any]]]:
    z, nz = ["float", hx(0), ["f32"]], ["float", hx(1 << 63), ["f32"]]
    n1, n2 = ["float", hx(0x7FF8000000000000), ["f32"]], ["float", hx(0x7FF8000020000000), ["f32"]]
    one, two = ["int", 1, ["i", 32, "signless"]], ["int", 2, ["i", 32, "signless"]]
    i32, f32 = ["i", 32, "signless"], ["f32"]
    g: list[tuple[str, list[Any]]] = []
    g.append(("op.constants", [["op", "arith.constant", [], [["value", v]], [], []] for v in (z, nz, n1, n2, one, two, ["float", hx(0), ["f64"]], ["float", hx(1 << 63), ["f64"]])]
              + [["op", "test", [], [["value", v]], [f32], []] for v in (z, nz)] + [["op", "test", [["value", v]], [], [f32], []] for v in (z, nz, n1)]))
    base = [
        ["op", "test", [], [], [], []], ["op", "test", [], [], [i32], []], ["op", "test", [], [], [f32], []], ["op", "test", [], [], [i32, i32], []],
        ["op", "test", [], [], [i32], [0]], ["op", "test", [], [], [i32], [1]], ["op", "test", [], [], [i32], [0, 1]], ["op", "test", [], [], [i32], [1, 0]],
        ["op", "test", [], [], [i32], [0, 0]], ["op", "test", [["a", one]], [], [i32], [0]], ["op", "test", [["a", two]], [], [i32], [0]],
        ["op", "test", [["b", one]], [], [i32], [0]], ["op", "test", [["a", one], ["b", two]], [], [i32], [0]], ["op", "test", [["b", two], ["a", one]], [], [i32], [0]],
        ["op", "test", [["a", two], ["b", one]], [], [i32], [0]], ["op", "test", [], [["prop1", one]], [i32], [0]], ["op", "test", [], [["prop2", one]], [i32], [0]],
        ["op", "test", [], [["prop1", two]], [i32], [0]], ["op", "test", [["prop1", one]], [], [i32], [0]],
        ["op", "unreg:test.op", [], [], [i32], [0]], ["op", "unreg:foo.bar", [], [], [i32], [0]], ["op", "unreg:foo.baz", [], [], [i32], [0]],
        ["op", "unreg:foo.bar", [["a", one]], [], [i32], [0]], ["op", "arith.addf", [], [], [], [2, 3]], ["op", "arith.addf", [], [], [], [3, 2]],
        ["op", "arith.addf", [], [], [], [2, 2]],
    ]
    g.append(("op.structure", base))
    for _ in range(n_random):
        rec = []
        vals = [rng.choice(LEAF_POOL) for _ in range(4)] + [z, nz, n1, n2]
        for _ in range(20):
            attrs = [[k, rng.choice(vals)] for k in rng.sample(["a", "b", "c"], rng.randint(0, 2))]
            props = [[k, rng.choice(vals)] for k in rng.sample(["prop1", "prop2", "prop3"], rng.randint(0, 2))]
            kind = rng.choice(["test", "test", "test", "unreg:foo.bar", "unreg:test.op"])
            rec.append(["op", kind, attrs, props, [rng.choice([i32, f32]) for _ in range(rng.randint(0, 2))],
                        [rng.randrange(4) for _ in range(rng.randint(0, 2))]])
        g.append(("op.random", rec))
    return g


def hash_twin_ints(w: int, sg: str) -> list[int]:
    """values of an integer type that fall into few classes of CPython's int hash
    (hash(v) = sign(v) * (|v| mod (2^61 - 1)), and -1 -> -2): every class has several members"""
    if sg == "unsigned":
        lo, hi = 0, (1 << w) - 1
    elif sg == "signed":
        lo, hi = -(1 << (w - 1)), (1 << (w - 1)) - 1
    else:
        lo, hi = -(1 << (w - 1)), (1 << w) - 1
    out = []
    for base in (0, 1, -1, -2, 5, -5):
        for k in range(0, 4):
            v = base + k * M61 if base >= 0 else base - k * M61
            if lo <= v <= hi and v not in out:
                out.append(v)
    return out


def collision_candidates() -> list[Any]:
    """attribute recipes of every payload kind in which CPython hashes collide systematically: ints (IntAttr,
    IntegerAttr of every width that has twins, BoolAttr-like i1), tuples / arrays / dictionaries of them,
    dense integer arrays, floats of integral value next to the ints of the same value (hash(1.0) == hash(1)),
    signed zeros (hash(0.0) == hash(-0.0) if a float is hashed by value), strings / bytes sharing a buffer"""
    c: list[Any] = []
    ity = [["i", 1, "signless"], ["i", 8, "signless"], ["i", 32, "signless"], ["i", 64, "signless"], ["i", 64, "signed"], ["i", 64, "unsigned"],
           ["i", 128, "signless"], ["index"]]
    for t in ity:
        w = 64 if t == ["index"] else t[1]
        sg = "signed" if t == ["index"] else t[2]
        c += [["int", v, t] for v in hash_twin_ints(w, sg)]
    iv = [0, 1, -1, -2, 5, -5, M61, M61 + 1, -M61 - 1, -M61 - 2, 2 * M61, 2 * M61 + 5, -M61 - 5, 1 << 61, -(1 << 61)]
    c += [["intattr", v] for v in iv]
    c += [["array", [["intattr", v]]] for v in iv[:10]]
    c += [["array", [["intattr", v], ["intattr", u]]] for v in (0, M61) for u in (-1, -2)]
    c += [["array", [["int", v, ["i", 32, "signless"]]]] for v in (-1, -2, 0)]
    c += [["dict", [["x", ["int", v, ["i", 64, "signless"]]]]] for v in (-1, -2, 0, M61)]
    c += [["densearr", ["i", 64, "signless"], [v]] for v in (-1, -2, 0, M61)]
    for v in (0.0, -0.0, 1.0, -1.0, -2.0, 2.0, float(1 << 61), float((1 << 61) - 1)):
        c += [["fdata", hx(bits_of(v))], ["float", hx(bits_of(v)), ["f64"]], ["float", hx(bits_of(v)), ["f32"]]]
    c += [["float", hx(b), ["f64"]] for b in (0x7FF8000000000000, 0xFFF8000000000000, 0x7FF8000000000001)]
    c += [["str", s_] for s_ in ("", "a", "\x00")] + [["bytes", h] for h in ("", "61", "00")] + [["unit"], ["tuple", []], ["array", []], ["dict", []]]
    return c


def colliding_pairs(ctx: core.Ctx, limit: int, per_kind_cap: int = 6) -> list[tuple[Any, Any]]:
    """pairs of unequal-by-payload attribute recipes whose REAL hashes coincide (found by bucketing the
    candidates by hash(), so the family follows whatever hashing the implementation uses)"""
    enc = Encoder(False)
    buckets: dict[int, list[tuple[Any, str]]] = {}
    for r in collision_candidates():
        try:
            a = build(r)
            h = hash(a)
            t = safe_term(enc, a)
        except Exception:  # noqa: BLE001
            continue
        if t is None:
            continue
        buckets.setdefault(h, []).append((r, t))
    pairs: list[tuple[Any, Any]] = []
    per_kind: dict[str, int] = {}
    for h in sorted(buckets):
        mem = buckets[h]
        for i in range(len(mem)):
            for j in range(i + 1, len(mem)):
                if mem[i][1] == mem[j][1]:
                    continue
                kind = f"{mem[i][0][0]}/{mem[j][0][0]}"
                if per_kind.get(kind, 0) >= per_kind_cap:
                    continue
                per_kind[kind] = per_kind.get(kind, 0) + 1
                pairs.append((mem[i][0], mem[j][0]))
    for k, v in per_kind.items():
        ctx.count(f"hash_colliding_pairs.{k}", v)
    ctx.rng.shuffle(pairs)
    pairs.sort(key=lambda ab: ab[0][0] != "int")   # typed integers first (they can be arith.constant values)
    return pairs[:limit]


def collision_op_groups(ctx: core.Ctx, limit: int) -> list[tuple[str, list[Any]]]:
    """OperationInfo of operations that differ ONLY in attribute / property values with equal hashes: the
    hash in front of OperationInfo.__eq__ cannot tell them apart, the value comparison must"""
    i32 = ["i", 32, "signless"]
    g: list[tuple[str, list[Any]]] = []
    pairs = colliding_pairs(ctx, limit, 6 if limit <= 64 else 40)
    ctx.count("hash_colliding_pairs", len(pairs))
    # result types whose hashes collide (shapes are tuples of IntAttr)
    f32 = ["f32"]
    tys = [[c, sh, f32] for c in ("tensor", "vector", "memref") for sh in ([0], [M61], [1], [M61 + 1], [2, 0], [2, M61])]
    g.append(("op.hash_collisions.result_types", [["op", "test", [], [], [t], [0]] for t in tys] + [["op", "unreg:foo.bar", [], [], [t, t], []] for t in tys[:6]]))
    for k in range(0, len(pairs), 2):
        rec: list[Any] = []
        for x, y in pairs[k:k + 2]:
            for v in (x, y):
                rec.append(["op", "test", [["k", v]], [], [i32], [0]])
                rec.append(["op", "test", [], [["prop1", v]], [i32], [0]])
                rec.append(["op", "unreg:foo.bar", [["k", v]], [], [i32], []])
                if v[0] in ("int", "float"):
                    rec.append(["op", "arith.constant", [], [["value", v]], [], []])
            rec.append(["op", "test", [["a", x], ["b", y]], [], [i32], [0]])
            rec.append(["op", "test", [["a", y], ["b", x]], [], [i32], [0]])
            rec.append(["op", "test", [["a", x]], [["prop1", y]], [i32], [0]])
            rec.append(["op", "test", [["a", y]], [["prop1", x]], [i32], [0]])
        g.append(("op.hash_collisions", rec))
    return g


def collision_attr_groups() -> list[tuple[str, list[Any]]]:
    c = collision_candidates()
    return [("attr.hash_collisions", c[k:k + 40]) for k in range(0, len(c), 40)]


def op_pool():
    from xdsl.dialects.builtin import Float32Type, IntegerType
    from xdsl.ir import Block

    blk = Block(arg_types=[IntegerType(32), IntegerType(32), Float32Type(), Float32Type()])
    return blk, list(blk.args)


def op_observation(op: Any, pool: list[Any], enc: Encoder) -> dict[str, Any] | None:
    from xdsl.dialects.builtin import UnregisteredOp

    try:
        name = op.op_name.data if isinstance(op, UnregisteredOp) else op.name
        return {
            "name": name,
            "attrs": " ".join(enc.term(dict(op.attributes))),
            "props": " ".join(enc.term(dict(op.properties))),
            "types": " ".join(enc.term(tuple(op.result_types))),
            "operands": [next(i for i, v in enumerate(pool) if v is x) for x in op.operands],
        }
    except (Unencodable, StopIteration):
        return None


def eval_op_group(ctx: core.Ctx, label: str, recipes: list[Any], batch: Batch) -> None:
    from xdsl.transforms.common_subexpression_elimination import KnownOps, OperationInfo

    blk, pool = op_pool()
    menc, nenc = Encoder(True), Encoder(False)
    infos, recs, twin, ops = [], [], [], []
    for r in recipes:
        try:
            o1, o2 = build_op(r, pool), build_op(r, pool)
        except core.InfraError:
            raise
        except Exception as e:  # noqa: BLE001
            ctx.count(f"op_build_rejected.{core.exc_name(e)}")
            continue
        if o1.regions:
            continue
        i = len(infos)
        ops += [o1, o2]
        infos += [OperationInfo(o1), OperationInfo(o2)]
        recs += [r, r]
        twin += [i + 1, i]
    n = len(infos)
    if n == 0:
        return
    ctx.count(f"group.{label}")
    ctx.count("op_objects", n)
    H = [hash(x) for x in infos]
    E = [[bool(infos[i] == infos[j]) for j in range(n)] for i in range(n)]
    NO = [op_observation(o, pool, nenc) for o in ops]
    MO = [op_observation(o, pool, menc) for o in ops]

    def case(i, j, check):
        return {"kind": "op_pair", "a": recs[i], "b": recs[j], "check": check}

    def blame(i, j, what):
        """the attribute pair at fault, if the op-level symptom comes from an attribute"""
        a, b = ops[i], ops[j]
        for da, db in ((a.attributes, b.attributes), (a.properties, b.properties)):
            for key in da:
                if key in db:
                    x, y = da[key], db[key]
                    if what == "equal-but-distinct" and x == y and safe_term(nenc, x) != safe_term(nenc, y):
                        return diagnose(x, y, what, nenc)
                    if what != "equal-but-distinct" and x == y and hash(x) != hash(y):
                        return diagnose(x, y, "hash-differs", nenc)
                    if what == "unequal-same-construction" and not (x == y):
                        return diagnose(x, y, what, nenc)
        return None

    for i in range(n):
        if not E[i][i]:
            ctx.fail(OPINFO + ".__eq__", "not reflexive", case(i, i, "reflexive"), "OperationInfo(op) != OperationInfo(op)", None, "x == x")
        j = twin[i]
        if i < j and (not E[i][j] or H[i] != H[j]):
            site_sig = blame(i, j, "unequal-same-construction") or (OPINFO + ".__eq__", "ops built from the same parameters are not equal")
            ctx.fail(site_sig[0], site_sig[1], case(i, j, "same-construction"),
                     "OperationInfo of two ops with identical name, attributes, properties, operands and result types differ (CSE would miss them)",
                     {"eq": E[i][j], "hash_eq": H[i] == H[j]}, "equal with equal hashes")
        for j in range(i + 1, n):
            ctx.ev()
            if E[i][j] != E[j][i]:
                ctx.fail(OPINFO + ".__eq__", "not symmetric", case(i, j, "symmetric"), "a == b differs from b == a", None, None)
            if E[i][j] and H[i] != H[j]:
                ctx.fail(OPINFO + ".__hash__", "equal OperationInfo hash differently", case(i, j, "hash"), "eq but hash differs", None, None)
            if E[i][j] and NO[i] is not None and NO[j] is not None and NO[i] != NO[j]:
                site_sig = blame(i, j, "equal-but-distinct") or (OPINFO + ".__eq__", "ops with observably different payload compare equal")
                ctx.fail(site_sig[0], site_sig[1], case(i, j, "equal-but-distinct"),
                         "OperationInfo equal for ops whose attribute payloads differ observably (CSE would merge them)",
                         {"a": NO[i], "b": NO[j]}, "not equal")
            if H[i] == H[j] and NO[i] is not None and NO[j] is not None:
                # the CSE cache itself (a dict keyed by OperationInfo): the hash bucket is shared, the lookup must still tell the ops apart
                known = KnownOps()
                known[ops[i]] = ops[i]
                hit = known.get(ops[j]) is not None or ops[j] in known
                ctx.count("known_ops_lookups_in_shared_hash_bucket")
                if hit and NO[i] != NO[j]:
                    site_sig = blame(i, j, "equal-but-distinct") or (OPINFO + ".__eq__", "ops with observably different payload compare equal")
                    ctx.fail(site_sig[0], site_sig[1], case(i, j, "equal-but-distinct"),
                             "the CSE cache (KnownOps) returns an operation with observably different attribute payloads for this one",
                             {"a": NO[i], "b": NO[j]}, "no hit")
                if not hit and recs[i] == recs[j]:
                    ctx.fail(OPINFO + ".__eq__", "ops built from the same parameters are not equal", case(i, j, "same-construction"),
                             "the CSE cache (KnownOps) misses an identical operation", None, "hit")
            if E[i][j] or (NO[i] and NO[j] and NO[i]["name"] == NO[j]["name"]):
                ctx.nt(hash(("op", str(NO[i]), str(NO[j]))))
    rows = [frozenset(j for j in range(n) if E[i][j]) for i in range(n)]
    for i in range(n):
        for j in rows[i]:
            if rows[j] != rows[i]:
                k = sorted(rows[i] ^ rows[j])[0]
                ctx.fail(OPINFO + ".__eq__", "not transitive", {"kind": "op_triple", "a": recs[i], "b": recs[j], "c": recs[k], "check": "transitive"},
                         "a == b but a == c differs from b == c", None, None)
                break
    # model lines
    batch.lines.append("reset")
    batch.impl.append("ok")
    batch.origin.append(None)
    nv = 0

    def define(term: str, org) -> int:
        nonlocal nv
        batch.lines.append("def " + term)
        batch.impl.append(f"ok {nv}")
        batch.origin.append(("def", org))
        nv += 1
        return nv - 1

    empty = define("(t )", None)
    idx: dict[int, int] = {}
    for i in range(n):
        mo = MO[i]
        if mo is None:
            continue
        a, p, t = define(mo["attrs"], recs[i]), define(mo["props"], recs[i]), define(mo["types"], recs[i])
        os_ = ",".join(map(str, mo["operands"])) or "-"
        nm = "u" + ".".join(f"{ord(c):x}" for c in mo["name"])
        idx[i] = len(idx)
        batch.lines.append(f"op {nm} {a} {p} {t} {os_} {empty}")
        batch.impl.append(f"ok {idx[i]}")
        batch.origin.append(("def", recs[i]))
    for i in range(n):
        for j in range(i, n):
            if i in idx and j in idx:
                batch.lines.append(f"cmpop {idx[i]} {idx[j]}")
                batch.impl.append(f"eq {int(E[i][j])} heq {int(H[i] == H[j])}")
                batch.origin.append(("cmpop", recs[i], recs[j]))
                if H[i] == H[j] and not E[i][j]:
                    batch.lines.append(f"cmpophash {idx[i]} {idx[j]}")
                    batch.impl.append(None)
                    batch.origin.append(None)
    del blk


# ---------------------------------------------------------------------------------------------
# the legacy float comparison of the Lean counterexample theorems = IEEE comparison of CPython
# ---------------------------------------------------------------------------------------------

def legacy_selftest(ctx: core.Ctx) -> None:
    import math

    pats = list(F64_BITS) + [widen32(p) for p in F32_PATTERNS]
    for _ in range(200):
        pats.append(rand_float_bits(ctx.rng))
    lines, impl = [], []
    for a in pats[:40]:
        for b in pats:
            x, y = float_of(a), float_of(b)
            lines.append(f"legacyfloat {a:x} {b:x}")
            impl.append(f"eq {int((math.isnan(x) and math.isnan(y)) or x == y)}")
    model = ctx.model("attr_value", lines)
    ctx.count("legacy_float_eq_pairs", len(lines))
    i = core.diff_streams(impl, model)
    if i is not None:
        ctx.mismatch("correspondence:C08/legacy_float_eq", {"kind": "model_lines", "lines": [lines[i]]}, impl[i], model[i],
                     "Lean Legacy.floatEq differs from CPython's (isnan and isnan) or ==")


# ---------------------------------------------------------------------------------------------
# declare_resource (model of the known finding): real method on a private storage vs Lean
# ---------------------------------------------------------------------------------------------

def resource_leg(ctx: core.Ctx, maxlen: int, nrandom: int) -> None:
    import itertools

    from xdsl.dialect_interfaces.op_asm import OpAsmDialectInterface

    keys = ["r", "r_0", "r_1", "s"]
    seqs: list[tuple[str, ...]] = []
    for n in range(1, maxlen + 1):
        seqs.extend(itertools.product(keys, repeat=n))
    more = keys + ["r_0_0", "r_2", "s_0", "r_10"]
    for _ in range(nrandom):
        seqs.append(tuple(ctx.rng.choice(more) for _ in range(ctx.rng.randint(5, 40))))
    lines, impl = [], []
    for seq in seqs:
        iface = type("PrivateStorage", (OpAsmDialectInterface,), {"_blob_storage": {}})()
        lines.append("reset")
        impl.append("ok")
        for k in seq:
            lines.append("declare " + k)
            impl.append("key " + iface.declare_resource(k))
    ctx.count("declare_resource.sequences", len(seqs))
    model = ctx.model("attr_value", lines)
    i = core.diff_streams(impl, model)
    if i is not None:
        j = max(q for q in range(i + 1) if lines[q] == "reset")
        ctx.mismatch("correspondence:C08/declare_resource", {"kind": "model_lines", "lines": lines[j:i + 1]}, impl[j:i + 1], model[j:i + 1],
                     "OpAsmDialectInterface.declare_resource differs from the Lean model")


# ---------------------------------------------------------------------------------------------
# every constructor route of every float type against the independent codec
# ---------------------------------------------------------------------------------------------

def codec_case(ty: Any, route: str, **kw: Any) -> dict:
    return {"kind": "float_codec", "type": type(ty).__name__, "route": route, **kw}


def route_bytes(ty: Any, route: str, xs: list[float]) -> bytes:
    """the payload bytes a constructor route produces for the parameters `xs`"""
    from xdsl.dialects import builtin as b

    if route == "pack":
        return bytes(ty.pack(tuple(xs)))
    if route == "pack_into":
        size = ty.compile_time_size
        buf = bytearray(b"\xAA" * (size * len(xs) + 2))
        for k, x in enumerate(xs):
            ty.pack_into(buf, 1 + k * size, x)
        if buf[0] != 0xAA or buf[-1] != 0xAA:
            raise ValueError("pack_into wrote outside its slot")
        return bytes(buf[1:-1])
    if route == "DenseArrayBase.from_list":
        return bytes(b.DenseArrayBase.from_list(ty, xs).data.data)
    if route == "DenseIntOrFPElementsAttr.from_list":
        return bytes(b.DenseIntOrFPElementsAttr.from_list(b.TensorType(ty, [len(xs)]), xs).data.data)
    if route == "DenseIntOrFPElementsAttr.from_list(splat)":
        return bytes(b.DenseIntOrFPElementsAttr.from_list(b.TensorType(ty, [2]), xs[:1]).data.data)
    raise core.InfraError(route)


ROUTE_SITE = {
    "pack": "{T}.pack", "pack_into": "{T}.pack_into",
    "DenseArrayBase.from_list": "xdsl.dialects.builtin.DenseArrayBase.from_list",
    "DenseIntOrFPElementsAttr.from_list": "xdsl.dialects.builtin.DenseIntOrFPElementsAttr.from_list",
    "DenseIntOrFPElementsAttr.from_list(splat)": "xdsl.dialects.builtin.DenseIntOrFPElementsAttr.from_list",
}


def text_route_bytes(ty: Any, route: str, pats: list[int]) -> tuple[str, bytes]:
    """(text, payload bytes) of the parser routes that take the elements as hexadecimal bit patterns"""
    w = (ty.bitwidth + 3) // 4
    lits = [f"0x{p:0{w}X}" for p in pats]
    size = ty.compile_time_size
    if route == "parse dense<[hex]>":
        text = f"dense<[{', '.join(lits)}]> : tensor<{len(pats)}x{ty.name}>"
    elif route == "parse dense<hex> splat":
        text = f"dense<{lits[0]}> : tensor<2x{ty.name}>"
    elif route == "parse array<T: hex>":
        text = f"array<{ty.name}: {', '.join(lits)}>"
    elif route == 'parse dense<"0x raw">':
        text = f'dense<"0x{b"".join(p.to_bytes(size, "little") for p in pats).hex().upper()}"> : tensor<{len(pats)}x{ty.name}>'
    else:
        raise core.InfraError(route)
    return text, bytes(parse_attr_fresh(text).data.data)


def float_codec_leg(ctx: core.Ctx, quick: bool) -> None:
    """All float types x {decode of bit patterns, encode of parameters} x every constructor route,
    bit-exactly against harness/props/c08_floats.py.  Decoding is exhaustive for formats up to 16 bits
    (8 bits in the quick tier + the whole exponent-all-ones region and the corner patterns of wider
    ones); parameters: NaNs of both signs (quiet / signalling / high and low payload bits), infinities,
    zeros, rounding midpoints and their neighbours, overflow threshold, random."""
    from xdsl.dialects import builtin as b

    for name, ty in builtin_float_types():
        fmt = FC.FORMATS.get(ty.name)
        if fmt is None or not rounds_on_construction(ty):
            ctx.count("float_codec.types_without_independent_format")
            continue
        T = qual_type(ty)
        if fmt.width != ty.bitwidth or fmt.size != ty.compile_time_size:
            ctx.fail(T + ".bitwidth", "bit width differs from the format of that name",
                     codec_case(ty, "bitwidth"), "bitwidth / size of the type differ from the format", {"bitwidth": ty.bitwidth, "size": ty.compile_time_size},
                     {"bitwidth": fmt.width, "size": fmt.size})
            continue
        ctx.count("float_codec.types")
        size = fmt.size
        # ---- decode: unpack / iter_unpack of bit patterns
        budget = (300 if fmt.width > 16 else 1 << 16) if not quick else (1 << 8 if fmt.width <= 8 else 1500)
        pats = FC.interesting_patterns(fmt, ctx.rng, budget)
        if fmt.width <= 16:   # the whole exponent-all-ones region (all NaNs / infinities) in every tier
            top = fmt.maxe << fmt.m
            pats = sorted(set(pats) | {(sg << (fmt.e + fmt.m)) | top | f for sg in ((0, 1) if fmt.has_sign else (0,)) for f in range(fmt.maxm + 1)})
        ctx.count("float_codec.patterns", len(pats))
        buf = b"".join(p.to_bytes(size, "little") for p in pats)
        try:
            vals = ty.unpack(buf, len(pats))
            vals2 = tuple(ty.iter_unpack(buf))
        except Exception as e:  # noqa: BLE001
            ctx.fail(T + ".unpack", f"raises {core.exc_name(e)}", codec_case(ty, "unpack", patterns=[hex(p) for p in pats[:4]]),
                     "decoding well-sized buffers raises", f"{core.exc_name(e)}: {e}"[:200], "a tuple of floats")
            continue
        dec_bad: set[int] = set()
        for p, v, v2 in zip(pats, vals, vals2):
            ctx.ev()
            d = FC.decode(fmt, p)
            vb = bits_of(v)
            if not d.admits(vb):
                dec_bad.add(p)
                sig = ("NaN pattern decoded without its sign" if d.bits is not None and FC.is_nan64(d.bits) and FC.is_nan64(vb) and (d.bits ^ vb) >> 63 else
                       "NaN pattern decoded with another payload" if d.bits is not None and FC.is_nan64(d.bits) and FC.is_nan64(vb) else
                       "pattern decoded to a different value")
                ctx.fail(T + ".unpack", sig, codec_case(ty, "unpack", pattern=hex(p)),
                         f"{ty.name} bit pattern {p:#x} is decoded to another float than the format gives ({d.why})",
                         {"unpack_f64_bits": hx(vb)}, {"f64_bits": hx(d.bits) if d.bits is not None else "a NaN"})
            if bits_of(v2) != vb:
                ctx.fail(T + ".iter_unpack", "iter_unpack differs from unpack", codec_case(ty, "iter_unpack", pattern=hex(p)),
                         "the two decoders of one type disagree", {"unpack": hx(vb), "iter_unpack": hx(bits_of(v2))}, "same value")
        # ---- encode: every route, per parameter
        params = FC.interesting_parameters(fmt, ctx.rng, 60 if quick else 1500)
        # parameters that are values of the type (so that hex / list routes can name them)
        params += [bits_of(v) for p, v in zip(pats[:: max(1, len(pats) // (200 if quick else 4000))], vals[:: max(1, len(pats) // (200 if quick else 4000))])]
        ctx.count("float_codec.parameters", len(params))
        good: list[tuple[int, int]] = []   # (parameter bits, unique expected pattern)
        for xb in params:
            ctx.ev()
            x = float_of(xb)
            enc = FC.encode(fmt, xb)
            got = own_pack(ty, x)
            ok = (isinstance(got, str) and enc.raises == got) or (isinstance(got, int) and enc.raises is None and enc.admits(got))
            if FC.is_nan64(xb) or xb & ((1 << 63) - 1) == 0 or FC.is_inf64(xb):
                ctx.nt(("codec", ty.name, hx(xb)))
            if not ok:
                ctx.fail(T + ".pack", encoding_defect(fmt, xb, enc, got), codec_case(ty, "pack", param=hx(xb)),
                         f"{ty.name}.pack of the Python float with binary64 pattern {hx(xb)} ({x!r}) is not the encoding the format gives ({enc.why})",
                         {"pack": hex(got) if isinstance(got, int) else got},
                         sorted(hex(q) for q in enc.pats)[:8] if enc.pats is not None else (enc.raises or FC.ANY))
                continue
            if isinstance(got, str):
                continue
            # the other routes must agree with pack (a difference is theirs), FloatAttr must hold decode(pattern)
            for route in ("pack_into", "DenseArrayBase.from_list", "DenseIntOrFPElementsAttr.from_list", "DenseIntOrFPElementsAttr.from_list(splat)"):
                try:
                    rb = route_bytes(ty, route, [x, x] if "splat" not in route else [x])
                    g2 = {int.from_bytes(rb[k:k + size], "little") for k in range(0, len(rb), size)} if len(rb) == 2 * size else {-1}
                except Exception as e:  # noqa: BLE001
                    g2 = core.exc_name(e)
                if g2 != {got}:
                    ctx.fail(ROUTE_SITE[route].format(T=T), f"payload differs from {ty.name}.pack of the same parameter" if not isinstance(g2, str) else f"raises {g2}",
                             codec_case(ty, route, param=hx(xb)), f"route {route} stores other bytes for the parameter than the type's pack",
                             {"route": sorted(hex(q) for q in g2) if not isinstance(g2, str) else g2, "pack": hex(got)}, hex(got))
            if got not in dec_bad:
                _, dec = FC.stored_after_construction(fmt, xb)
                try:
                    a = b.FloatAttr(x, ty)
                    hb = bits_of(a.value.data)
                except Exception as e:  # noqa: BLE001
                    ctx.fail(FLOATATTR_INIT, f"raises {core.exc_name(e)}", codec_case(ty, "FloatAttr", param=hx(xb)), "construction raises although pack accepts the parameter",
                             f"{core.exc_name(e)}: {e}"[:200], "an attribute")
                    continue
                if dec is not None and not dec.admits(hb):
                    ctx.fail(FLOATATTR_INIT, "stored value is not decode(encode(parameter)) of the type's format", codec_case(ty, "FloatAttr", param=hx(xb)),
                             "FloatAttr holds another value than the format gives for the parameter", {"held_f64_bits": hx(hb), "pack": hex(got)},
                             hx(dec.bits) if dec.bits is not None else "a NaN")
            if enc.exact is not None:
                good.append((xb, got))
        # ---- parser routes on bit patterns: list / splat / array literals re-encode the decoded value, the raw string keeps the bytes
        sample = [p for p in pats if p not in dec_bad]
        nanp = [p for p in sample if FC.is_nan_pattern(fmt, p)]
        pick = (nanp[:: max(1, len(nanp) // 12)] + sample[:: max(1, len(sample) // 12)])[:30] if quick else (nanp[:: max(1, len(nanp) // 200)] + sample[:: max(1, len(sample) // 200)])
        for k in range(0, len(pick), 2):
            pp = pick[k:k + 2]
            for route in ("parse dense<[hex]>", "parse dense<hex> splat", "parse array<T: hex>", 'parse dense<"0x raw">'):
                ctx.ev()
                if route.startswith('parse dense<"'):
                    want = [frozenset({p}) for p in pp]
                else:
                    want = []
                    for p in pp:
                        d = FC.decode(fmt, p)
                        e = FC.encode(fmt, d.bits) if d.bits is not None else FC.Enc(FC.nan_patterns(fmt))
                        want.append(e.pats)
                    if "splat" in route:
                        want = [want[0], want[0]]
                try:
                    text, rb = text_route_bytes(ty, route, pp)
                except Exception as e:  # noqa: BLE001
                    ctx.count(f"float_codec.text_route_rejected.{core.exc_name(e)}")
                    continue
                gotp = [int.from_bytes(rb[j:j + size], "little") for j in range(0, len(rb), size)]
                if len(gotp) != len(want) or any(w is not None and g not in w for g, w in zip(gotp, want)):
                    # the type's own pack (root cause, reported at the type) or the route?
                    src = pp if "splat" not in route else [pp[0], pp[0]]
                    if not route.startswith('parse dense<"') and len(gotp) == len(src):
                        own = []
                        for p in src:
                            d = FC.decode(fmt, p)
                            own.append(own_pack(ty, float_of(d.bits)) if d.bits is not None else None)
                        if all(o is None or o == g for o, g in zip(own, gotp)):
                            for p, g, w in zip(src, gotp, want):
                                d = FC.decode(fmt, p)
                                if w is not None and g not in w and d.bits is not None:
                                    enc = FC.encode(fmt, d.bits)
                                    ctx.fail(T + ".pack", encoding_defect(fmt, d.bits, enc, g), codec_case(ty, "pack", param=hx(d.bits)),
                                             f"{ty.name}.pack of the Python float with binary64 pattern {hx(d.bits)} is not the encoding the format gives ({enc.why})",
                                             {"pack": hex(g), "seen_through": text}, sorted(hex(q) for q in enc.pats)[:8] if enc.pats is not None else FC.ANY)
                            continue
                    site = CONSTRUCTOR_OF["parse"]
                    ctx.fail(site, f"{route.split(' ', 1)[1]}: payload is not the encoding of the literal's bit patterns",
                             {"kind": "float_codec", "type": type(ty).__name__, "route": route, "text": text},
                             "a dense / array literal given by hexadecimal bit patterns stores other bytes than the format gives",
                             {"payload": [hex(g) for g in gotp]}, [sorted(hex(q) for q in w)[:4] if w is not None else FC.ANY for w in want])
        # ---- the hand-written bf16 encoder against its Lean model (theorems bf16Encode_* of XdslProofs/C08.lean)
        if ty.name == "bf16":
            f32s = list(F32_PATTERNS) + [p << 16 for p in BF16_PATTERNS] + [(p << 16) | lo for p in BF16_PATTERNS for lo in (0x7FFF, 0x8000, 0x8001)]
            f32s += [(sg << 31) | (0xFF << 23) | fr for sg in (0, 1) for fr in (1, 1 << 15, 1 << 16, 1 << 21, 1 << 22, (1 << 22) | 1, (1 << 23) - 1, 0x7FFF, 0x10000)]
            f32s += [ctx.rng.getrandbits(32) for _ in range(300 if quick else 20000)]
            f32s += [(ctx.rng.getrandbits(1) << 31) | (0xFF << 23) | ctx.rng.getrandbits(23) for _ in range(100 if quick else 5000)]
            lines, impl = [], []
            for f in f32s:
                x = struct.unpack("<f", struct.pack("<I", f))[0]
                got = own_pack(ty, x)
                lines.append(f"bf16enc {f:x}")
                impl.append(f"bits {got}" if isinstance(got, int) else f"raises {got}")
            ctx.count("bf16_encoder_model_lines", len(lines))
            model = ctx.model("attr_value", lines)
            k = core.diff_streams(impl, model)
            if k is not None:
                ctx.mismatch("correspondence:C08/bf16_encode", {"kind": "model_lines", "lines": [lines[k]]}, impl[k], model[k],
                             "BFloat16Type.pack differs from the Lean model bf16Encode of the encoder")
        # ---- batch pack = concatenation
        if good:
            xs = [float_of(xb) for xb, _ in good]
            try:
                allb = bytes(ty.pack(tuple(xs)))
            except Exception as e:  # noqa: BLE001
                allb = None
                ctx.fail(T + ".pack", f"raises {core.exc_name(e)} on a sequence of accepted parameters", codec_case(ty, "pack", params=[hx(xb) for xb, _ in good[:3]]),
                         "pack of several values raises although each value alone is accepted", core.exc_name(e), "bytes")
            if allb is not None and allb != b"".join(q.to_bytes(size, "little") for _, q in good):
                ctx.fail(T + ".pack", "pack of a sequence is not the concatenation of the single encodings", codec_case(ty, "pack", params=[hx(xb) for xb, _ in good[:3]]),
                         "pack(xs) differs from the concatenation of pack((x,))", None, None)


# ---------------------------------------------------------------------------------------------
# run / replay
# ---------------------------------------------------------------------------------------------

# ---------------------------------------------------------------------------------------------
# attributes as values across interpreters: hashed, pickled here; unpickled in a child process whose
# str/bytes hashes are salted differently, next to the same attributes built there from the recipes
# ---------------------------------------------------------------------------------------------

PICKLE_SIG = "equal attributes hash differently after unpickling in another interpreter"
PICKLE_PROBE = "C08 hash-seed probe"


def pickle_items(recipes: list[Any], counts: dict[str, int]) -> list[tuple[Any, bytes | None, bytes]]:
    """(recipe, pickle taken before the check hashed the attribute, pickle taken after hashing and keying a dict/set)"""
    import pickle

    items: list[tuple[Any, bytes | None, bytes]] = []
    seen: set[str] = set()
    for r in recipes:
        key = repr(r)
        if key in seen:
            continue
        seen.add(key)
        try:
            a = build(r)
        except core.InfraError:
            raise
        except Exception:  # noqa: BLE001
            continue
        try:
            cold: bytes | None = pickle.dumps(a)
        except Exception as e:  # noqa: BLE001  (not picklable: dynamically created classes, ...)
            counts["pickle.not_picklable." + type(a).__name__] = counts.get("pickle.not_picklable." + type(a).__name__, 0) + 1
            continue
        try:
            hash(a)
            assert a in {a} and {a: 1}[a] == 1
            warm = pickle.dumps(a)
        except Exception:  # noqa: BLE001  (unhashable: reported by the group checks)
            continue
        items.append((r, cold, warm))
    return items


def hash_site(a: Any, b: Any) -> str:
    """the __hash__ at fault for a == b with different hashes: descend to the innermost sub-objects that show it,
    name the class in the MRO that defines the hash they use"""
    for _ in range(80):
        fa, fb = fields_of(a), fields_of(b)
        nxt = None
        if fa is not None and fb is not None and len(fa) == len(fb):
            for x, y in zip(fa, fb):
                try:
                    if x == y and hash(x) != hash(y) and (fields_of(x) is not None or is_floatdata(x)):
                        nxt = (x, y)
                        break
                except Exception:  # noqa: BLE001
                    continue
        if nxt is None:
            break
        a, b = nxt
    for c in type(a).__mro__:
        if "__hash__" in vars(c):
            return f"{qual(c)}.__hash__"
    return f"{qual(type(a))}.__hash__"


def pickle_child(inp: str, out: str) -> None:
    """runs in the child interpreter (other PYTHONHASHSEED): load, rebuild from the recipe, compare"""
    import json
    import pickle

    with open(inp, "rb") as f:
        items = pickle.load(f)
    res: dict[str, Any] = {"probe": hash(PICKLE_PROBE), "n": len(items), "bad": [], "counts": {}}
    cnt = res["counts"]
    nenc = Encoder(False)
    for idx, (r, cold, warm) in enumerate(items):
        try:
            fresh = build(r)
        except Exception as e:  # noqa: BLE001
            cnt["child_build_rejected"] = cnt.get("child_build_rejected", 0) + 1
            continue
        for tag, blob in (("pickled-before-hashing", cold), ("pickled-after-hashing", warm)):
            try:
                l = pickle.loads(blob)
            except Exception as e:  # noqa: BLE001
                cnt["not_unpicklable." + type(fresh).__name__] = cnt.get("not_unpicklable." + type(fresh).__name__, 0) + 1
                continue
            try:
                eq = bool(l == fresh) and bool(fresh == l)
            except Exception:  # noqa: BLE001
                eq = False
            if not eq:   # pickling need not round-trip to an equal value for the property; counted only
                cnt["unpickled_not_equal." + type(fresh).__name__] = cnt.get("unpickled_not_equal." + type(fresh).__name__, 0) + 1
                continue
            cnt["equal_pairs"] = cnt.get("equal_pairs", 0) + 1
            try:
                hl, hf = hash(l), hash(fresh)
                member = (l in {fresh}) and (fresh in {l}) and {l: 1}.get(fresh) == 1 and {fresh: 1}.get(l) == 1
            except Exception as e:  # noqa: BLE001
                res["bad"].append({"i": idx, "when": tag, "error": core.exc_name(e)})
                continue
            if hl != hf or not member:
                site = hash_site(l, fresh)
                res["bad"].append({"i": idx, "when": tag, "hash_eq": hl == hf, "set_dict_member": member, "site": site,
                                   "a": describe(fresh), "payload": safe_term(nenc, fresh)})
    with open(out, "w", encoding="utf-8") as f:
        json.dump(res, f)


class PickleLeg:
    """parent side: start the child early, collect later (the child runs while the other legs do)"""

    def __init__(self, recipes: list[Any], seed: int):
        import os
        import pickle
        import subprocess
        import sys
        import tempfile

        self.counts: dict[str, int] = {}
        self.items = pickle_items(recipes, self.counts)
        self.dir = tempfile.mkdtemp(prefix="c08_pickle_")
        self.inp, self.out = os.path.join(self.dir, "in.pkl"), os.path.join(self.dir, "out.json")
        with open(self.inp, "wb") as f:
            pickle.dump(self.items, f)
        own = os.environ.get("PYTHONHASHSEED", "")
        self.seed = seed if str(seed) != own else seed + 1
        env = dict(os.environ, PYTHONHASHSEED=str(self.seed), PYTHONDONTWRITEBYTECODE="1")
        env["PYTHONPATH"] = os.pathsep.join([str(core.REPO), str(core.VERIF / "harness")] + [x for x in env.get("PYTHONPATH", "").split(os.pathsep) if x])
        self.proc = subprocess.Popen([sys.executable, "-c", "import sys; from props import c08; c08.pickle_child(sys.argv[1], sys.argv[2])", self.inp, self.out],
                                     env=env, stdout=subprocess.PIPE, stderr=subprocess.STDOUT, text=True)

    def collect(self, timeout: float) -> dict[str, Any]:
        import json
        import shutil
        import subprocess

        try:
            log, _ = self.proc.communicate(timeout=timeout)
        except subprocess.TimeoutExpired:
            self.proc.kill()
            raise core.InfraError("C08 pickle leg: child interpreter did not finish")
        try:
            if self.proc.returncode != 0:
                raise core.InfraError(f"C08 pickle leg: child interpreter failed ({self.proc.returncode}): {log[-1500:]}")
            with open(self.out, encoding="utf-8") as f:
                res = json.load(f)
        finally:
            shutil.rmtree(self.dir, ignore_errors=True)
        if res["probe"] == hash(PICKLE_PROBE):
            raise core.InfraError("C08 pickle leg: the child interpreter has the same string hash seed as the check")
        return res


def pickle_recipes(ctx: core.Ctx, n_random: int, n_corpus: int, per_group: int | None = None) -> list[Any]:
    recs: list[Any] = []
    for label, rs in fixed_groups():   # every fixed family: all texts (dialect attributes), a sample of the enumerated payload families
        if per_group is None or label.startswith("parse.") or len(rs) <= per_group:
            recs += rs
        else:
            recs += rs[:per_group // 2] + ctx.rng.sample(rs[per_group // 2:], per_group - per_group // 2)
    for _ in range(n_random):
        recs.append(rand_recipe(ctx.rng, ctx.rng.randint(1, 3)))
    if n_corpus:
        texts = [t for ts in corpus_texts(ctx, 120).values() for t in ts]
        ctx.rng.shuffle(texts)
        recs += [["parse", t] for t in texts[:n_corpus]]
    return recs


def pickle_leg_finish(ctx: core.Ctx, leg: PickleLeg, timeout: float) -> None:
    res = leg.collect(timeout)
    ctx.count("pickle.attributes_shipped", len(leg.items))
    for k, v in list(leg.counts.items()) + [("pickle.child." + k, v) for k, v in res["counts"].items()]:
        ctx.count(k, v)
    ctx.ev(res["counts"].get("equal_pairs", 0))
    for it in leg.items:
        ctx.nt(("pickle", repr(it[0])))
    for b in res["bad"]:
        r = leg.items[b["i"]][0]
        ctx.fail(b.get("site", "xdsl.ir.core.Attribute.__hash__"), PICKLE_SIG,
                 {"kind": "attr_pickle", "a": r, "child_hashseed": leg.seed, "when": b["when"]},
                 "an attribute that was hashed (dict / set key) and pickled in one interpreter, loaded in an interpreter with another string hash "
                 "seed, is == to the attribute built there from the same parameters but hashes differently: set / dict lookups miss",
                 {k: v for k, v in b.items() if k != "i"}, "hash(loaded) == hash(built) and each is found in a set / dict keyed by the other")


def unregistered_history_leg(ctx: core.Ctx, n_other: int) -> None:
    """The same unregistered attribute/type text parsed in two fresh Contexts must give equal values
    whatever happened in between -- in particular after the process has seen many other
    unregistered names (history dimension of "parsed from the same text in different contexts")."""
    texts = ['#vd.config<42 : i32>', '!vd.handle<i32>', '#vd.other<"x">', '[#vd.config<1>, !vd.handle<f32>]']
    first = [parse_attr_fresh(t) for t in texts]
    for i in range(n_other):
        parse_attr_fresh(f"#vdx{i}.a{i}<{i}>" if i % 2 else f"!vdx{i}.t{i}<i{1 + i % 60}>")
    second = [parse_attr_fresh(t) for t in texts]
    for t, a, b in zip(texts, first, second):
        ctx.ev()
        ctx.nt(("unreg-history", t, n_other))
        if not (a == b and b == a and hash(a) == hash(b)):
            ctx.fail(UNREG, "same unregistered text parsed in two contexts is unequal after other unregistered names were created",
                     {"kind": "unregistered_history", "text": t, "other_unregistered_names_between": n_other},
                     f"`{t}` parsed in a fresh Context, then {n_other} other unregistered names, then `{t}` in another fresh Context: "
                     f"== is {a == b}, hashes equal: {hash(a) == hash(b)}", str(a), str(b))
    ctx.count("unregistered_history.other_names", n_other)


def run(ctx: core.Ctx) -> None:
    ctx.lean()
    quick = ctx.tier == "quick"
    batch = Batch()

    def flush():
        nonlocal batch
        compare_with_model(ctx, batch)
        batch = Batch()

    # minimised past failures first
    import json

    past: list[Any] = []
    for f in sorted(glob.glob(str(core.VERIF / "harness" / "corpus" / "C08" / "*.json"))):
        c = json.loads(open(f, encoding="utf-8").read())
        past += [c[k] for k in ("a", "b", "c") if k in c]
    ctx.count("regression_corpus.recipes", len(past))
    for i in range(0, len(past), 24):
        eval_group(ctx, "regression_corpus", past[i:i + 24], batch)
    for label, recs in fixed_groups():
        eval_group(ctx, label, recs, batch)
    flush()
    pleg = PickleLeg(pickle_recipes(ctx, 100 if quick else 1500, 0, 8 if quick else None), 1 + ctx.rng.randrange(1 << 30))
    ctx.count("float_type_classes", len(builtin_float_types()))
    for label, recs in float_type_groups(not quick):
        eval_group(ctx, label, recs, batch)
    flush()
    float_codec_leg(ctx, quick)
    for label, recs in collision_attr_groups():
        eval_group(ctx, label, recs, batch)
    flush()
    for label, recs in collision_op_groups(ctx, 40 if quick else 400) + op_groups(ctx.rng, 12 if quick else 400):
        eval_op_group(ctx, label, recs, batch)
    flush()
    legacy_selftest(ctx)
    resource_leg(ctx, 4 if quick else 5, 100 if quick else 2000)
    unregistered_history_leg(ctx, 400 if quick else 5000)
    for k in range(250 if quick else 6000):
        if ctx.time_left() < (50 if quick else 300):
            ctx.count("random_groups_skipped_for_time")
            break
        eval_group(ctx, "random", random_group(ctx.rng, 20 if quick else 24), batch)
        if len(batch.lines) > 300_000:
            flush()
    flush()
    pickle_leg_finish(ctx, pleg, 600)
    for label, recs in corpus_groups(ctx, 350 if quick else None, 2600 if quick else 40000):
        if ctx.time_left() < (15 if quick else 60):
            ctx.count("corpus_groups_skipped_for_time")
            break
        eval_group(ctx, label, recs, batch)
        if len(batch.lines) > 300_000:
            flush()
    flush()
    ctx.exhaustive = False
    ctx.extra["exhaustive_scope"] = (
        "all pairs and all triples inside every group; the corner-pattern families of every float type, the integer "
        "families and the container families are fixed (enumerated), the rest is seeded random / sampled from the corpus"
    )


def replay_codec(case: dict) -> int:
    from xdsl.dialects import builtin as b

    ty = getattr(b, case["type"])()
    fmt = FC.FORMATS[ty.name]
    route = case["route"]
    size = ty.compile_time_size
    bad = False
    print(f"type {ty.name}: format e={fmt.e} m={fmt.m} bias={fmt.bias} nonfinite={fmt.nonfinite} nan={fmt.nan} (independent codec harness/props/c08_floats.py)")
    if route == "bitwidth":
        print(f"bitwidth {ty.bitwidth} size {size}; format {fmt.width} / {fmt.size}")
        bad = fmt.width != ty.bitwidth or fmt.size != size
    elif route in ("unpack", "iter_unpack"):
        p = int(case["pattern"], 16)
        raw = p.to_bytes(size, "little")
        v, v2 = ty.unpack(raw, 1)[0], next(iter(ty.iter_unpack(raw)))
        d = FC.decode(fmt, p)
        print(f"pattern {p:#x}: unpack -> {v!r} bits {hx(bits_of(v))}; iter_unpack -> bits {hx(bits_of(v2))}; format: {hx(d.bits) if d.bits is not None else 'a NaN'} ({d.why})")
        bad = not d.admits(bits_of(v)) or bits_of(v) != bits_of(v2)
    elif route.startswith("parse "):
        a = parse_attr_fresh(case["text"])
        rb = bytes(a.data.data)
        print(f"text {case['text']}\n  payload bytes {rb.hex()}  printed {describe(a)}")
        lits = re.findall(r"0x([0-9A-Fa-f]+)", case["text"])
        if route.startswith('parse dense<"'):
            raw = bytes.fromhex(lits[0])
            want = [frozenset({int.from_bytes(raw[k:k + size], "little")}) for k in range(0, len(raw), size)]
        else:
            want = []
            for lit in lits:
                d = FC.decode(fmt, int(lit, 16))
                want.append((FC.encode(fmt, d.bits) if d.bits is not None else FC.Enc(FC.nan_patterns(fmt))).pats)
            if "splat" in route:
                want = [want[0]] * (len(rb) // size)
        got = [int.from_bytes(rb[k:k + size], "little") for k in range(0, len(rb), size)]
        print("  elements", [hex(g) for g in got], "format gives", [sorted(hex(q) for q in w)[:4] if w is not None else FC.ANY for w in want])
        bad = len(got) != len(want) or any(w is not None and g not in w for g, w in zip(got, want))
    else:
        plist = [case["param"]] if "param" in case else case.get("params", [])
        for ph in plist:
            xb = int(ph, 16)
            x = float_of(xb)
            enc, dec = FC.stored_after_construction(fmt, xb)
            got = own_pack(ty, x)
            exp = sorted(hex(q) for q in enc.pats)[:8] if enc.pats is not None else (enc.raises or FC.ANY)
            print(f"parameter {x!r} (binary64 {hx(xb)}): {ty.name}.pack -> {hex(got) if isinstance(got, int) else 'raises ' + got}; format gives {exp} ({enc.why})")
            ok = (isinstance(got, str) and enc.raises == got) or (isinstance(got, int) and enc.raises is None and enc.admits(got))
            bad |= not ok
            if route in ROUTE_SITE and route != "pack" and isinstance(got, int):
                try:
                    rb = route_bytes(ty, route, [x, x] if "splat" not in route else [x])
                    g2: Any = sorted({hex(int.from_bytes(rb[k:k + size], "little")) for k in range(0, len(rb), size)})
                    bad |= g2 != [hex(got)]
                except Exception as e:  # noqa: BLE001
                    g2 = "raises " + core.exc_name(e)
                    bad = True
                print(f"  route {route}: elements {g2}")
            try:
                a = b.FloatAttr(x, ty)
                hb = bits_of(a.value.data)
                print(f"  FloatAttr holds bits {hx(hb)} printed {describe(a)}; format gives {hx(dec.bits) if dec is not None and dec.bits is not None else 'n/a'}")
                if dec is not None:
                    bad |= not dec.admits(hb)
            except Exception as e:  # noqa: BLE001
                print(f"  FloatAttr raises {core.exc_name(e)}")
                bad |= enc.raises is None and route == "FloatAttr"
        if len(plist) > 1:
            xs = [float_of(int(ph, 16)) for ph in plist]
            try:
                allb = bytes(ty.pack(tuple(xs)))
                one = b"".join(bytes(ty.pack((x,))) for x in xs)
                print(f"  pack(all) {allb.hex()} ; concatenation {one.hex()}")
                bad |= allb != one
            except Exception as e:  # noqa: BLE001
                print(f"  pack(all) raises {core.exc_name(e)}")
                bad = True
    print("property", "FAILS" if bad else "holds", "on this case")
    return 1 if bad else 0


def replay(ctx: core.Ctx, body: dict) -> int:
    case = body["case"]
    kind = case.get("kind")
    if kind == "model_lines" and "lines" in case:
        print("model lines  :", case["lines"])
        print("lean model   :", ctx.model("attr_value", case["lines"]))
        print("implementation (recorded):", body.get("impl_observation"))
        if "a" not in case:
            return 1
    bad = False
    if kind == "float_codec":
        return replay_codec(case)
    if kind == "attr_value":
        for r in case.get("built_before", []):
            try:
                build(r)
            except Exception:  # noqa: BLE001
                pass
        if case.get("built_before"):
            print("built first (history):", case["built_before"])
        a = build(case["a"])
        print(f"attribute a: recipe={case['a']}  printed={describe(a)}")
        hit = find_mutable(a)
        if hit is not None:
            print(f"      mutable payload: {type(hit[1]).__name__} held by {qual(type(hit[0]))}")
            bad = True
        try:
            print("      hash(a) =", hash(a))
        except Exception as e:  # noqa: BLE001
            print(f"      hash(a) raises {core.exc_name(e)}: {e}")
            bad = True
        try:
            print("      a == rebuilt a:", a == build(case["a"]))
        except Exception as e:  # noqa: BLE001
            print(f"      == raises {core.exc_name(e)}: {e}")
            bad = True
        ca = canon(case["a"])
        xp = expected_float(ca) if ca[0] in ("float", "floattext") else None
        if xp is not None:
            ty, want = xp
            have = a.value.data
            print(f"      held value bits {hx(bits_of(have))} (type encoding {type_encoding(ty, have)}); "
                  f"type.unpack(type.pack(parameter)) bits {hx(bits_of(want))} (type encoding {type_encoding(ty, want)})")
            bad |= bits_of(have) != bits_of(want)
        ind = independent_float(ca) if ca[0] in ("float", "floattext") else None
        if ind is not None:
            ty, fmt, xb, enc, dec = ind
            site, sig, obs = blame_float(ty, fmt, xb, enc, bits_of(a.value.data))
            print(f"      independent codec of {fmt.name} (e={fmt.e} m={fmt.m} bias={fmt.bias}): parameter bits {hx(xb)} must encode as "
                  f"{obs['independent_encoding']} ({enc.why}); {ty.name}.pack gives {obs['type.pack']}")
            if dec is not None:
                print(f"      must hold {hx(dec.bits) if dec.bits is not None else 'a NaN'}, holds {hx(bits_of(a.value.data))}")
                bad |= not dec.admits(bits_of(a.value.data))
            got = own_pack(ty, float_of(xb))
            bad |= not ((isinstance(got, str) and enc.raises == got) or (isinstance(got, int) and enc.raises is None and enc.admits(got)))
        print("property", "FAILS" if bad else "holds", "on this case")
        return 1 if bad else 0
    if kind == "attr_pickle":
        leg = PickleLeg([case["a"]], int(case.get("child_hashseed", 4242)))
        print(f"attribute a: recipe={case['a']}  printed={describe(build(case['a']))}")
        print(f"hashed, used as dict / set key and pickled in this interpreter; loaded in a child interpreter with PYTHONHASHSEED={leg.seed}, "
              "next to the attribute built there from the same recipe")
        if not leg.items:
            print("the attribute cannot be built / pickled here")
            return 0
        res = leg.collect(300)
        print("child:", res["counts"])
        for b_ in res["bad"]:
            print("      ", {k: v for k, v in b_.items() if k != "i"})
            bad = True
        print("property", "FAILS" if bad else "holds", "on this case")
        return 1 if bad else 0
    if kind in ("op_pair", "op_triple"):
        from xdsl.transforms.common_subexpression_elimination import OperationInfo

        blk, pool = op_pool()
        names = [k for k in ("a", "b", "c") if k in case]
        ops = {k: build_op(case[k], pool) for k in names}
        infos = {k: OperationInfo(ops[k]) for k in names}
        enc = Encoder(False)
        for k in names:
            print(f"op {k}: recipe={case[k]}")
            print(f"      observable payload = {op_observation(ops[k], pool, enc)}")
        for x in names:
            for y in names:
                if x < y:
                    e, h = infos[x] == infos[y], hash(infos[x]) == hash(infos[y])
                    same = op_observation(ops[x], pool, enc) == op_observation(ops[y], pool, enc)
                    print(f"OperationInfo({x}) == OperationInfo({y}): {e}; hashes equal: {h}; payloads identical: {same}")
                    bad |= (e and not h) or (e and not same) or (case[x] == case[y] and not (e and h))
                    bad |= e != (infos[y] == infos[x])
        if len(names) == 3:
            e = {(x, y): infos[x] == infos[y] for x in names for y in names}
            bad |= e[("a", "b")] and e[("b", "c")] and not e[("a", "c")]
            bad |= e[("a", "b")] and e[("a", "c")] != e[("b", "c")]
    else:
        names = [k for k in ("a", "b", "c") if k in case]
        objs = {k: build(case[k]) for k in names}
        nenc, menc = Encoder(False), Encoder(True)
        terms = {}
        for k in names:
            terms[k] = safe_term(menc, objs[k])
            print(f"attribute {k}: recipe={case[k]}  printed={describe(objs[k])}")
            print(f"      observable payload = {safe_term(nenc, objs[k])}")
        for x in names:
            if not (objs[x] == objs[x]):
                print(f"{x} == {x}: False")
                bad = True
            for y in names:
                if x < y:
                    e, h = objs[x] == objs[y], hash(objs[x]) == hash(objs[y])
                    same = safe_term(nenc, objs[x]) == safe_term(nenc, objs[y])
                    print(f"{x} == {y}: {e}; {y} == {x}: {objs[y] == objs[x]}; hashes equal: {h}; payloads identical: {same}")
                    if canon(case[x]) == canon(case[y]) and case[x] != case[y]:
                        print(f"      {x} and {y} are built from the same parameters (argument forms: {[n[1] for n in via_nodes(case[x])]} / {[n[1] for n in via_nodes(case[y])]})")
                    bad |= (e and not h) or (e and not same) or (canon(case[x]) == canon(case[y]) and not (e and h)) or (e != (objs[y] == objs[x]))
                    cx, cy = canon(case[x]), canon(case[y])
                    xa = expected_float(cx) if cx[0] in ("float", "floattext") else None
                    xb = expected_float(cy) if cy[0] in ("float", "floattext") else None
                    if xa is not None and xb is not None and qual(type(xa[0])) == qual(type(xb[0])):
                        ea, eb = type_encoding(xa[0], xa[1]), type_encoding(xb[0], xb[1])
                        print(f"      parameters encode in the type as {ea} / {eb}; held values encode as "
                              f"{type_encoding(xa[0], objs[x].value.data)} / {type_encoding(xb[0], objs[y].value.data)}")
                        bad |= e and (ea != eb or bits_of(xa[1]) != bits_of(xb[1]))
                    ia = independent_float(cx) if cx[0] in ("float", "floattext") else None
                    ib = independent_float(cy) if cy[0] in ("float", "floattext") else None
                    if ia is not None and ib is not None and ia[1].name == ib[1].name and ia[4] is not None and ib[4] is not None:
                        da, db = ia[4].bits, ib[4].bits
                        print(f"      independent codec of {ia[1].name}: the attributes must hold {hx(da) if da is not None else 'a NaN'} / {hx(db) if db is not None else 'a NaN'}; "
                              f"they hold {hx(bits_of(objs[x].value.data))} / {hx(bits_of(objs[y].value.data))}")
                        bad |= bool(e) and da is not None and db is not None and da != db
                    if terms[x] is not None and terms[y] is not None:
                        m = ctx.model("attr_value", ["reset", "def " + terms[x], "def " + terms[y], "cmp 0 1"])
                        print(f"      lean model of the fixed semantics: {m[-1]}")
        if len(names) == 3:
            e = {(x, y): objs[x] == objs[y] for x in names for y in names}
            bad |= e[("a", "b")] and e[("a", "c")] != e[("b", "c")]
    print("property", "FAILS" if bad else "holds", "on this case")
    return 1 if bad else 0
