"""C04 — the generic textual form round-trips every valid IR."""
from __future__ import annotations

import itertools
import re
from typing import Any

from vp import core

from props import c04_attrs as A
from props import c04_gen as G
from props import c04_ir as I
from props import c04_sk as S
from props import c04_unreg as U

META = {
    "title": "Generic textual form round-trips every valid IR",
    "category": "proof",
    "design_ref": "DESIGN.md §5 C04",
    "lean_modules": ["XdslProofs.C04", "XdslProofs.C04Skeleton", "XdslProofs.C04Verbatim"],
    "text": (
        "Lean theorems on the name layer of the generic form (XdslModel/Names.lean = extract_valid_name, "
        "Printer.print_ssa_value/_populate_block_name/print_region/enter_scope, Parser hint storing): "
        "for ALL lists of accepted hints the names given to the values of a scope and, through any "
        "nesting of IsolatedFromAbove scopes, to the values visible in each live scope are pairwise "
        "distinct (allocate_injective, scoped_injective), the labels of the blocks of a region are "
        "pairwise distinct from every printer state (region_injective), what the parser stores back "
        "for a printed name is the original hint (reparse_allocate, scoped_reparse, reparse_region) and "
        "therefore printing the re-parsed IR allocates exactly the same names (print_idempotent, "
        "scoped_idempotent, region_idempotent); accepted hints are (accepted_clean) "
        "fixed points of the suffix stripping; unrepaired_*_counterexample record why one-suffix stripping fails. "
        "Lean theorems on the token skeleton of the generic operation form (XdslModel/Skeleton.lean = "
        "Printer.print_op_with_default_format/print_region/print_block/print_function_type and "
        "Parser._parse_generic_operation/parse_optional_region/_parse_block with the symbol tables "
        "ssa_values/forward_ssa_references/blocks/forward_block_references; attributes and types are opaque "
        "token groups): skeleton_syntax_roundtrip (reading the printed token stream gives the printed tree), "
        "skeleton_roundtrip_scoped / skeleton_roundtrip (an IR that respects textual scoping, printed with names "
        "that are distinct among values live together and among the blocks of a region — in particular with any "
        "injective naming, skeleton_roundtrip_on: injective on the values/blocks that occur — parses back to an "
        "isomorphic IR; multi-block regions and forward references to values and blocks included), "
        "skeleton_reprint / skeleton_roundtrip_text (the isomorphic copy named correspondingly prints the same "
        "tokens), skeleton_roundtrip_allocated (one printer scope: names from Names.allocate for any accepted "
        "hints), skeleton_roundtrip_needs_distinct_names. Every generated/corpus/pass-output module is serialised into the model: "
        "printSk must equal the real printer's text lexed by the real MLIRLexer with attribute/type groups "
        "collapsed, the hypothesis `admissible` must hold for it, and parseSk of the real token stream must "
        "build the structure the real parser builds. The names model is diffed against the real printer/parser on "
        "every hint list over a small adversarial alphabet up to the length bound (values, blocks, "
        "nested isolated scopes) and on random nested programs. The whole property (equivalent IR after "
        "print→parse in a fresh Context, identical text on re-print, print twice, print clone) is "
        "checked directly, with an own canonical serialisation, on those generated programs, on generated modules "
        "with unregistered-dialect attributes and types whose verbatim bodies exercise the raw bracket/string "
        "scanner of the parser, on every "
        "parseable+verifying chunk of tests/**/*.mlir with all dialects registered, and on pass outputs; and on "
        "generated modules whose operations (registered and unregistered, under operation names with and without "
        "dialect prefix, at several nesting depths) carry builtin attribute/type payloads from a boundary-value "
        "catalogue — integers at width boundaries, floats of every width incl. integral f64 with more than six "
        "significant digits, 2**32, 2**53, denormals, ±0, inf/nan, dense/array of those, strings with escapes, "
        "nested containers, affine/location/opaque attributes, every builtin type — and random payloads from the C06 "
        "generator, in attribute dictionaries, properties, result and block-argument types. "
        "Lean theorems on text that must pass unchanged (XdslModel/Verbatim.lean = BasePrinter.print_string, "
        "Context.get_optional_op): printString_zero / printString_eq_self_iff (a verbatim body printed with "
        "indentation 0 is written unchanged; with any other indentation iff it has no line break — "
        "printString_iterate_length: else it grows on every print→parse round), generic_lookup / "
        "generic_name_roundtrip (the quoted operation name of the generic form is read back as the operation of "
        "exactly that name, registered iff the name is), lookup_eq_generic_iff (when the dialect-stack lookup of the "
        "custom form agrees); tied to the real print_string at every indentation, to UnregisteredAttr printing, to "
        "get_optional_op over all stacks and to the parser's lookup below operations of other dialects. "
        "Names written bare or quoted (Printer.print_identifier_or_string_literal = isBare, the lexer's bare "
        "identifier = lexBare): lexBare_whole_iff (an unquoted name is read back as exactly that name iff it passes "
        "the printer's test), lexBare_append (a bare name followed by anything that does not continue an identifier "
        "is read back as that name), isBare_no_space (no bare name holds a line break or blank), "
        "trailing_newline_counterexample."
    ),
    "technique": "Lean 4 proofs on the name-allocation model + exhaustive/random differential correspondence + direct round-trip oracle over generated programs, the .mlir corpus and pass outputs",
    "level_note": (
        "Proved: name allocation / re-parse of names (all hint lists, all scope nestings); the token skeleton "
        "of the generic operation form with attributes/types as opaque balanced token groups (the parser model "
        "is the grammar followed by the symbol-table actions in the parser's order — the same partial function "
        "as the interleaved real parser; a forward placeholder and the definition replacing it are one node; "
        "result tuples `%x:n`, locations and custom formats are outside the model; the names theorems and the "
        "skeleton theorems are composed for one printer scope only — nested IsolatedFromAbove scopes and block "
        "labels are linked through the checked hypothesis `admissible`, which the harness evaluates on the names "
        "the real printer gave). Not proved, only exercised by the "
        "round-trip oracle: every attribute/type printer+parser of the ~80 dialects (modelled, not verified; "
        "literals are C06: a module of the `attrs` family that fails because one payload does not survive "
        "print→parse on its own is reported under the call_site/signature the C06 classification gives that payload, "
        "so the known literal-layer defects — BytesAttr with valid UTF-8, non-canonical NaN encodings of the f8/f6/f4 "
        "types — are listed for C04 under the same names; operation names equal to a registered name on an "
        "unregistered operation are not generated: the text cannot tell them apart). "
        "Trusted: hand-written models XdslModel/Names.lean, XdslModel/Skeleton.lean and XdslModel/Verbatim.lean "
        "(tied by correspondence), the span-recording printer subclass and serialiser in "
        "harness/props/c04_sk.py, Python `re` "
        "matching the transcribed regexes, the canonical serialiser in harness/props/c04_ir.py. "
        "Equivalence is as the quantifier says: property equal to its declared default ≡ absent; "
        "inherent attribute in the attribute dictionary ≡ property (for such IR the re-printed text is "
        "required to be a fixed point after one normalising round instead of identical). Name hints and "
        "locations are not part of IR equivalence. Corpus chunks that do not parse or verify are skipped."
    ),
    "rule": (
        "names: every list of raw hints over the stated alphabets up to the length bound, as op results "
        "(one per op; results of one op + block arguments), as block hints of a region (× entry block "
        "with/without arguments × with/without predecessor × one/two regions), and every balanced "
        "val/enter/exit sequence (nested builtin.module scopes); non-trivial = two hints of the list "
        "have the same stripped stem or a hint has the default form bb<n>/a numeric suffix. random: "
        "nested programs with multi-block regions, forward uses, isolated scopes; non-trivial = ≥2 equal "
        "stems in one scope. corpus/pass: every chunk that parses and verifies; non-trivial = has ≥1 "
        "named value or block, or ≥1 attribute. Distinct = distinct spec / distinct (file, chunk[, pass]). "
        "unreg: modules built through the API whose operations carry attributes/types of an unregistered dialect "
        "(pretty, bodiless and opaque form) in attribute dictionaries, properties, result/operand/block-argument "
        "types and inside array/dictionary/function/tuple containers; bodies = every string literal over the "
        "pieces {escaped quote, escaped backslash, `]`, `>`, letter} up to the length bound (alone, followed by "
        "brackets, inside brackets) and random bodies from a grammar of balanced `()[]{}<>`, strings with escaped "
        "quotes/backslashes/brackets/`>`/`->`/`//`, commas, nested unregistered and builtin attributes; every such "
        "module is non-trivial. "
        "(bodies spanning several lines included, also below other operations). "
        "attrs: every payload of the boundary-value catalogue (props/c04_attrs.py; the same on every run) in chunks of "
        "12 on an unregistered operation at top level and again three levels down inside test.op / unregistered / "
        "builtin.module regions, types also as result and block-argument types, every unregistered operation name of "
        "the name catalogue below every kind of parent, every attribute-dictionary key of the key catalogue; plus "
        "random payload lists from the C06 generator; every such module is non-trivial. "
        "idents: every string over 22 character-class representatives (identifier start, digit, `_ $ .`, `-`, `#`, "
        "blank, \\n \\r \\t \\v \\f NUL US, quote, backslash, non-ASCII letter/digit, U+2028, U+0085) up to length 3 "
        "(4 in the thorough tier), eight identifiers with every code point below U+0100 and eleven other Unicode "
        "characters before / after / inside them, random longer mixtures: printed by "
        "Printer.print_identifier_or_string_literal and read where the parser expects an identifier or string literal "
        "(must give back the name and nothing else; bare/quoted vs Lean isBare; non-trivial = printed unquoted, or "
        "length ≤ 2); every name printed unquoted (length ≤ 3 or around `key`), every name of length ≤ 2 and the "
        "edge family around `key` also in whole modules (family attrs): attribute key with and without value and "
        "property key of an unregistered operation, attribute key of test.op, DictionaryAttr key, SymbolRefAttr root "
        "and nested component. "
        "verbatim: every text over {a, line break, space} up to length 4, the multi-line bodies and random texts × "
        "indentation 0/1/3 (non-trivial = has a line break and indentation > 0); every name of the name catalogue × "
        "every dialect stack over {builtin, test, func, u} up to length 2 (non-trivial = some enclosing dialect has "
        "an operation of that short name). "
        "skeleton: every module of the families above that prints and re-parses, plus hand-written corner "
        "texts and token-level mutations of printed streams (real parser vs parseSk: accept/reject and structure)."
    ),
    "trusted_base": [
        "hand-written Lean model XdslModel/Names.lean (fixed printer/parser name logic), tied by correspondence",
        "hand-written Lean model XdslModel/Skeleton.lean (generic-form printer/parser skeleton), tied by correspondence; serialiser harness/props/c04_sk.py",
        "canonical IR serialiser + round-trip oracle harness/props/c04_ir.py",
        "hand-written Lean model XdslModel/Verbatim.lean (print_string indentation, operation-name lookup, bare-identifier test), tied by correspondence",
        "payload recipes, constructors and attribute-level classification shared with C06 (harness/props/c06_values.py, c06.classify)",
    ],
    "budget": {"quick": 110, "thorough": 1150},
}

VAL_ALPHA_CORE = [None, "a", "a_1", "a_1_2", "b"]
VAL_ALPHA_EXT = [None, "a", "a_1", "a_1_2", "b", "_1", "a-b", "aé", "a_٣", "bb0"]
BLK_ALPHA_CORE = [None, "a", "bb0", "bb1", "a_1_2"]
BLK_ALPHA_EXT = [None, "a", "bb0", "bb1", "bb2", "a_1_2", "a_1", "b", "bb", "bb0_1", "_1"]
ACCEPT_RAWS = ["", "a", "a_1", "a_1_2", "a_1_2_3", "_1", "__1", "_", "a_", "a_1b_2", "0", "1", "12", "bb0", "bb1",
               "_x", "a-b", "-2", "$", ".", "a.b", "a$1", "1a", "a b", "a\n", "a_1\n", "%a", "aé", "é",
               "a_٣", "a٣", "a_1_", "a__1", "a_01", "a_1_02", "A_9", "z_10_20", "bb0_1", "a_²"]


def stem(raw: str | None) -> str | None:
    if raw is None:
        return None
    return re.sub(r"(_[0-9]+)+$", "", raw)


# ---------------------------------------------------------------------------------------------
# one generated program
# ---------------------------------------------------------------------------------------------

class CaseResult:
    __slots__ = ("status", "lines", "impl", "rt", "ob", "reparse_lines", "reparse_impl", "text", "module")

    def __init__(self) -> None:
        self.status = "ok"
        self.lines: list[str] = []
        self.impl: list[str] = []
        self.rt: I.RT | None = None
        self.ob: G.Obs | None = None
        self.reparse_lines: list[str] = []
        self.reparse_impl: list[str] = []
        self.text = ""
        self.module = None


def classify_rt(rt: I.RT) -> tuple[str, str, str]:
    """(call_site, signature, description) for a failed round trip"""
    d = rt.detail
    if rt.stage == "reparse":
        if "dialect symbol body" in d:
            return ("xdsl.parser.attribute_parser.AttrParser._raw_scan_balanced",
                    "printed body of an unregistered attribute/type does not parse back",
                    "the generic printer writes the body of an unregistered attribute verbatim; the scanner that looks "
                    "for its closing `>` fails on it: " + d)
        if "already defined" in d:
            return ("xdsl.printer.Printer.print_ssa_value", "two values defined with one name",
                    "the printed text defines one value name twice: " + d)
        if "re-declaration of block" in d:
            return ("xdsl.printer.Printer._populate_block_name", "two blocks of a region printed with one label",
                    "the printed text declares one block label twice: " + d)
        if "missing block declarations" in d:
            return ("xdsl.printer.Printer.print_region", "label of an entry block with predecessors not printed",
                    "a successor names the entry block but its label is not printed: " + d)
        return ("xdsl.parser.core.Parser.parse_module", "printed generic text does not parse", d)
    if rt.stage == "canonical":
        if re.search(r"dense<[^>]*0x[0-9A-Fa-f]+", rt.text1) and "bytes" in d:
            return ("xdsl.parser.attribute_parser.AttrParser._TensorLiteralElement.to_float",
                    "dense float element printed as hex bit pattern is re-read as an integer value", d)
        m = re.search(r"'unregistered:([^']*)' vs '([^']*)'", d)
        if m and m.group(2).endswith("." + m.group(1)):
            return ("xdsl.parser.core.Parser.parse_operation",
                    "quoted operation name without that dialect prefix is looked up in the enclosing dialects",
                    "the generic form spells operation names in full, but the parser also tries the name behind the "
                    "dialect of every enclosing operation: an unregistered operation comes back as a registered one: " + d)
        if "dense_resource" in rt.text1 and "str" in d and re.search(r"'(\w+)' vs '\1_\d+'", d):
            return ("xdsl.dialect_interfaces.op_asm.OpAsmDialectInterface.declare_resource",
                    "resource handle renamed on re-parse (blob storage shared between Contexts)", d)
        return ("xdsl.parser.core.Parser.parse_module", "re-parsed IR not equivalent", d)
    if rt.stage == "reprint":
        a, b = rt.text1, rt.text2
        if normalise_names(a) == normalise_names(b):
            kind = "block labels" if strip_kind(a, "%") == strip_kind(b, "%") else "value names"
            site = "xdsl.printer.Printer._populate_block_name" if kind == "block labels" else "xdsl.printer.Printer.print_ssa_value"
            return (site, f"re-parsed IR prints with different {kind}", I.text_diff_line(a, b))
        return ("xdsl.printer.Printer.print_op", "re-parsed IR prints different text", I.text_diff_line(a, b))
    if rt.stage == "print-clone":
        a, b = rt.text1, rt.text2
        if normalise_names(a) == normalise_names(b):
            if strip_kind(a, "%") == strip_kind(b, "%"):
                return ("xdsl.ir.core.Region.clone_into", "clone prints with different block labels (block name hints not cloned)",
                        I.text_diff_line(a, b))
            return ("xdsl.ir.core.Operation.clone", "clone prints with different value names", I.text_diff_line(a, b))
        return ("xdsl.ir.core.Operation.clone", "clone prints different text", I.text_diff_line(a, b))
    if rt.stage == "print-twice":
        return ("xdsl.printer.Printer.print_op", "printing twice gives different text", I.text_diff_line(rt.text1, rt.text2))
    return ("xdsl.printer.Printer.print_op", "printer raised", d)


_ID = re.compile(r'"(?:[^"\\]|\\.)*"|([%^])([^\s,:=()\[\]{}<>"]+)')


def normalise_names(text: str) -> str:
    """rename %x / ^x by first occurrence (outside string literals)"""
    seen: dict[str, str] = {}

    def f(m: re.Match[str]) -> str:
        if m.group(1) is None:
            return m.group(0)
        k = m.group(1) + m.group(2)
        if k not in seen:
            seen[k] = f"{m.group(1)}#{len(seen)}"
        return seen[k]

    return _ID.sub(f, text)


def strip_kind(text: str, sigil: str) -> str:
    """text with identifiers of the OTHER sigil normalised away (to see which kind differs)"""
    other = "^" if sigil == "%" else "%"
    return _ID.sub(lambda m: m.group(0) if m.group(1) != other else other + "#", text)


def run_spec(spec: dict[str, Any]) -> CaseResult:
    """build → verify → round-trip oracle → observation lines for the model"""
    res = CaseResult()
    try:
        module = G.build(spec)
    except G.Rejected:
        res.status = "rejected"
        return res
    try:
        module.verify()
    except Exception:  # noqa: BLE001
        res.status = "unverified"
        return res
    rt = I.roundtrip(module)
    res.rt = rt
    res.module = module
    text = rt.text1 or I.print_generic(module)
    res.text = text
    ob = G.observe(module, text)
    res.ob = ob
    res.lines, res.impl = ["reset"] + ob.lines, ["ok"] + ob.impl
    if rt.ok and ob.problem is None:
        # what the parser stored back, for every printed name
        m2 = I.parse_module(text)
        ob2 = G.observe(m2, text)
        if ob2.problem is None and len(ob2.val_order) == len(ob.val_order):
            for v1, v2 in zip(ob.val_order, ob2.val_order):
                n = ob.val_name[id(v1)]
                res.reparse_lines.append("reparse-val " + n)
                h = v2.name_hint
                res.reparse_impl.append("none" if h is None else "hint " + G.show_hint(h))
            for b1, b2 in zip(ob.block_order, ob2.block_order):
                n = ob.block_name[id(b1)]
                res.reparse_lines.append("reparse-block " + n)
                h = b2.name_hint
                res.reparse_impl.append("none" if h is None else "hint " + G.show_hint(h))
    return res


def _op_lists(spec: dict[str, Any]):
    """every list of op specs in `spec` (the lists are the live objects)"""
    out = [spec["ops"]]
    todo = [spec["ops"]]
    while todo:
        for o in todo.pop():
            for reg in o.get("regions", []):
                for b in reg["blocks"]:
                    out.append(b["ops"])
                    todo.append(b["ops"])
    return out


def shrink_spec(spec: dict[str, Any], sig: str, r0: CaseResult, max_steps: int = 400):
    """greedy: drop ops / blocks / uses / hints while the same signature still fails"""
    import copy

    def fails(sp: dict[str, Any]):
        try:
            r = run_spec(sp)
        except Exception:  # noqa: BLE001
            return None
        if r.status == "ok" and r.rt is not None and not r.rt.ok and classify_rt(r.rt)[1] == sig:
            return r
        return None

    cur, cur_r = copy.deepcopy(spec), r0
    steps = 0
    progress = True
    while progress and steps < max_steps:
        progress = False
        nlists = len(_op_lists(cur))
        for li in range(nlists):
            k = 0
            while True:
                lists = _op_lists(cur)
                if li >= len(lists) or k >= len(lists[li]) or steps >= max_steps:
                    break
                cand = copy.deepcopy(cur)
                cl = _op_lists(cand)[li]
                removed = cl.pop(k)
                if removed.get("term") and not removed.get("iso"):
                    # keep a terminator, but try it without successors/uses
                    if not removed.get("succ") and not removed.get("use"):
                        k += 1
                        continue
                    cl.insert(k, {"term": True})
                steps += 1
                rr = fails(cand)
                if rr is not None:
                    cur, cur_r, progress = cand, rr, True
                    if removed.get("term"):
                        k += 1
                else:
                    k += 1
        # hints → None, uses → dropped
        for ops in range(len(_op_lists(cur))):
            for k in range(len(_op_lists(cur)[ops])):
                for field in ("use", "res"):
                    if steps >= max_steps:
                        break
                    cand = copy.deepcopy(cur)
                    o = _op_lists(cand)[ops][k]
                    if field == "use" and o.get("use"):
                        o.pop("use")
                    elif field == "res" and any(x is not None for x in o.get("res", [])):
                        o["res"] = [None] * len(o["res"])
                    else:
                        continue
                    steps += 1
                    rr = fails(cand)
                    if rr is not None:
                        cur, cur_r, progress = cand, rr, True
    return cur, cur_r


class Batch:
    """collects cases, runs the Lean model once over all of them, reports"""

    def __init__(self, ctx: core.Ctx, family: str, mut: "S.MutBatch | None" = None, mut_p: float = 0.0, mut_k: int = 0,
                 sk_stride: int = 1):
        self.ctx, self.family = ctx, family
        self.lines: list[str] = []
        self.impl: list[str] = []
        self.spans: list[tuple[int, int, Any]] = []
        self.n = 0
        self.sk = S.SkBatch(ctx, family, mut, mut_p, mut_k, sk_stride)

    def add(self, spec: dict[str, Any], nontrivial: bool, key: Any) -> CaseResult:
        ctx = self.ctx
        r = run_spec(spec)
        ctx.count(f"{self.family}.{r.status}")
        if r.status != "ok":
            return r
        ctx.ev()
        self.n += 1
        if nontrivial:
            ctx.nt((self.family, key))
        assert r.rt is not None and r.ob is not None
        if not r.rt.ok:
            site, sig, desc = classify_rt(r.rt)
            rr = r
            if self.family == "random":
                spec, rr = shrink_spec(spec, sig, r)
                site, sig, desc = classify_rt(rr.rt)  # type: ignore[arg-type]
            assert rr.rt is not None
            ctx.fail(site, sig, {"family": self.family, "spec": spec}, desc,
                     {"stage": rr.rt.stage, "text": rr.rt.text1[:1500], "text2": rr.rt.text2[:1500]}, None)
        elif r.ob.inconsistent:
            ctx.fail("xdsl.printer.Printer.print_ssa_value", "one value or block printed under two names",
                     {"family": self.family, "spec": spec}, r.ob.inconsistent, r.text[:1500], None)
        if r.rt.ok or r.rt.m2 is not None:
            self.sk.add(r.module, {"spec": spec}, r.rt.ok, r.rt.m2)
        r.module = None
        if r.ob.problem is not None:
            if r.rt.ok:
                raise core.InfraError(f"C04 observer lost track of the printed text: {r.ob.problem}\n{r.text}")
            return r
        start = len(self.lines)
        self.lines += r.lines + r.reparse_lines
        self.impl += r.impl + r.reparse_impl
        self.spans.append((start, len(self.lines), spec))
        return r

    def finish(self) -> None:
        self.sk.finish()
        if not self.lines:
            return
        ctx = self.ctx
        model = ctx.model("names", self.lines)
        ctx.count(f"{self.family}.model_lines", len(self.lines))
        for a, b, spec in self.spans:
            m = [G.mask_unknown(x, y) for x, y in zip(model[a:b], self.impl[a:b])]
            if m != self.impl[a:b]:
                i = core.diff_streams(self.impl[a:b], m)
                ctx.mismatch("correspondence:C04/names", {"family": self.family, "spec": spec, "line": self.lines[a + (i or 0)]},
                             self.impl[a:b], m,
                             "real printer/parser and Lean names model disagree")
                break


# ---------------------------------------------------------------------------------------------
# families
# ---------------------------------------------------------------------------------------------

def nontrivial_hints(raws) -> bool:
    st = [stem(r) for r in raws if r is not None]
    return len(set(st)) < len(st) or any(r is not None and (r != stem(r) or re.fullmatch(r"bb[0-9]+", r)) for r in raws)


def run_accept(ctx: core.Ctx, nrandom: int) -> None:
    from xdsl.ir import SSAValue

    raws = list(ACCEPT_RAWS)
    chars = list("ab_01$.-") + ["é", "٣", " ", "B", "9"]
    for _ in range(nrandom):
        raws.append("".join(ctx.rng.choice(chars) for _ in range(ctx.rng.randint(0, 7))))
    lines, impl = [], []
    for raw in raws:
        lines.append("accept " + ",".join(str(ord(c)) for c in raw))
        try:
            h = SSAValue.extract_valid_name(raw)
            impl.append("hint " + G.show_hint(h))
        except ValueError:
            impl.append("raise ValueError")
        ctx.ev()
        if raw != stem(raw):
            ctx.nt(("accept", raw))
    model = ctx.model("names", lines)
    i = core.diff_streams(impl, model)
    if i is not None:
        ctx.mismatch("correspondence:C04/names.accept", {"family": "accept", "raw": raws[i], "line": lines[i]}, impl[i], model[i],
                     "extract_valid_name and the Lean `accepted` disagree")
    ctx.count("accept.raw_strings", len(raws))
    ctx.sample({"family": "accept", "raw": "a_1_2", "impl": impl[raws.index("a_1_2")]})


def run_names(ctx: core.Ctx, val_len: int, ext_len: int, blk_len: int, blk_ext_len: int, scoped_len: int,
              sk_stride: int = 1) -> None:
    b = Batch(ctx, "values", sk_stride=sk_stride)
    for n in range(1, val_len + 1):
        for raws in itertools.product(VAL_ALPHA_CORE, repeat=n):
            b.add(G.spec_values(raws), nontrivial_hints(raws), raws)
    for n in range(1, ext_len + 1):
        for raws in itertools.product(VAL_ALPHA_EXT, repeat=n):
            if all(r in VAL_ALPHA_CORE for r in raws) and n <= val_len:
                continue
            b.add(G.spec_values(raws), nontrivial_hints(raws), raws)
    for n in range(2, min(val_len, 4) + 1):
        for raws in itertools.product(VAL_ALPHA_CORE, repeat=n):
            b.add(G.spec_multi(raws), nontrivial_hints(raws), ("multi", raws))
    b.finish()
    ctx.sample({"family": "values", "raw_hints": ["a", "a", "a_1_2"], "printed": run_spec(G.spec_values(("a", "a", "a_1_2"))).impl})

    b = Batch(ctx, "blocks")
    for n in range(1, blk_len + 1):
        for raws in itertools.product(BLK_ALPHA_CORE, repeat=n):
            for ea in (False, True):
                for ep in (False, True):
                    b.add(G.spec_blocks(raws, ea, ep), nontrivial_hints(raws), (raws, ea, ep))
    for n in range(1, blk_ext_len + 1):
        for raws in itertools.product(BLK_ALPHA_EXT, repeat=n):
            b.add(G.spec_blocks(raws, False, n % 2 == 0, two_regions=True), nontrivial_hints(raws), ("two", raws))
    b.finish()
    ctx.sample({"family": "blocks", "raw_hints": [None, "bb0"], "printed": run_spec(G.spec_blocks((None, "bb0"), False, False)).impl})

    b = Batch(ctx, "scoped", sk_stride=sk_stride)
    for seq in G.scoped_event_seqs([None, "a", "a_1_2"], scoped_len):
        raws = [e[1] for e in seq if e[0] == "val"]
        b.add(G.spec_scoped(seq), nontrivial_hints(raws), seq)
    b.finish()


def run_random(ctx: core.Ctx, n: int, mut: "S.MutBatch | None" = None, mut_p: float = 0.0, mut_k: int = 0) -> None:
    b = Batch(ctx, "random", mut, mut_p, mut_k)
    for k in range(n):
        if ctx.time_left() < 20:
            break
        spec = G.random_spec(ctx.rng, VAL_ALPHA_EXT + ["a", "b", None, None], BLK_ALPHA_EXT + [None, None, "a"], ctx.rng.randint(3, 25))
        r = b.add(spec, True, k)
        if k == 0 and r.status == "ok":
            ctx.sample({"family": "random", "text": r.text[:600]})
    b.finish()


# ---------------------------------------------------------------------------------------------
# corpus and pass outputs
# ---------------------------------------------------------------------------------------------

def has_inherent_attr_in_dict(module) -> bool:
    from xdsl.irdl import IRDLOperation

    for op in module.walk():
        if isinstance(op, IRDLOperation) and op.attributes:
            d = type(op).get_irdl_definition()
            if any(n in op.attributes and n not in op.properties for n in d.properties):
                return True
    return False


def classify_unreg(rt: I.RT) -> tuple[str, str, str]:
    """in the `unreg` family the only text that is not plain skeleton is the verbatim body of an
    unregistered attribute: a text that does not parse back is charged to the body scanner"""
    if re.search(r"[#!]d[.<][^\n]*\n", rt.text1) and (
            rt.stage == "reprint" or (rt.stage == "canonical" and re.search(r"'[^']*\\n[^']*' vs '[^']*\\n", rt.detail))
            or (rt.stage == "reparse" and "previously used or defined with type" in rt.detail)):
        # (at `reparse`: one type printed at two indentation levels reads back as two types)
        return ("xdsl.dialects.builtin.UnregisteredAttr.print_builtin",
                "multi-line body of an unregistered attribute/type is re-indented by the printer",
                "the body of an unregistered attribute is verbatim text, but print_string puts the current indentation "
                "after each of its line breaks, so the body grows on every print → parse: " + rt.detail)
    if rt.stage == "reparse":
        return ("xdsl.parser.attribute_parser.AttrParser._raw_scan_balanced",
                "printed body of an unregistered attribute/type does not parse back",
                "the generic printer writes the body of an unregistered attribute verbatim; the parser does not "
                "find its end: " + rt.detail)
    return classify_rt(rt)


def check_module(ctx: core.Ctx, module, case: dict[str, Any], family: str, sk: "S.SkBatch | None" = None,
                 classify=None) -> bool:
    """the direct oracle of the property on one verified module; True = holds"""
    ctx.ev()
    rt = I.roundtrip(module, with_metadata=True)
    if sk is not None and (rt.ok or rt.m2 is not None):
        sk.add(module, case, rt.ok, rt.m2)
    if rt.ok:
        return True
    if rt.stage == "reprint" and has_inherent_attr_in_dict(module):
        # the quantifier's relaxation applies: the first print has an inherent attribute in the
        # attribute dictionary, the parser moves it into the properties; demand a fixed point then
        try:
            m3 = I.parse_module(rt.text2)
            t3 = I.print_generic(m3, with_metadata=True)
        except Exception as e:  # noqa: BLE001
            t3 = f"<{core.exc_name(e)}>"
        if t3 == rt.text2:
            ctx.count(f"{family}.normalised_inherent_attr")
            return True
    site, sig, desc = (classify or classify_rt)(rt)
    ctx.fail(site, sig, case, desc, {"stage": rt.stage, "detail": rt.detail[:600]}, None)
    ctx.count(f"{family}.fail.{rt.stage}")
    return False


def run_corner(ctx: core.Ctx, mut: "S.MutBatch", k: int) -> None:
    """hand-written corner texts of the generic form: the direct oracle, the skeleton leg, mutations"""
    sk = S.SkBatch(ctx, "corner")
    for i, text in enumerate(S.CORNER_TEXTS):
        try:
            m = I.parse_module(text)
            m.verify()
        except Exception:  # noqa: BLE001
            # the text is only a means to build IR; a parser that rejects it is found by the other families
            ctx.count("corner.unparsed")
            continue
        ctx.nt(("corner", i))
        check_module(ctx, m, {"family": "corner", "corner": i, "text": text}, "corner", sk)
    cases = [c for c, _ in sk.cases]
    sk.finish()
    for c in cases:
        mut.add(c, k)


def run_unreg(ctx: core.Ctx, n_random: int, str_len: int, chunk: int = 40) -> None:
    """unregistered dialect attributes and types with generated bodies (see c04_unreg.py)"""
    sk = S.SkBatch(ctx, "unreg")

    def one(spec: dict[str, Any], key: Any) -> None:
        try:
            m = U.build(spec)
            m.verify()
        except Exception as e:  # noqa: BLE001
            raise core.InfraError(f"C04 unreg: a generated spec does not build/verify: {core.exc_name(e)}: {e}") from e
        ctx.count("unreg.modules")
        ctx.nt(("unreg", key))
        rt = I.roundtrip(m, check_clone=False)
        if rt.ok:
            ctx.ev()
            sk.add(m, {"family": "unreg", "spec": spec}, True, rt.m2)
            return
        # shrink: the smallest sub-spec that fails with the same classification
        sig = classify_unreg(rt)[1]
        best = spec
        for cand in U.sub_specs(spec):
            try:
                mc = U.build(cand)
                mc.verify()
                rc = I.roundtrip(mc, check_clone=False)
            except Exception:  # noqa: BLE001
                continue
            if not rc.ok and classify_unreg(rc)[1] == sig and len(str(cand)) < len(str(best)):
                best = cand
        check_module(ctx, U.build(best), {"family": "unreg", "spec": best}, "unreg", classify=classify_unreg)

    # builtin payloads placed next to the unregistered attributes: those of the boundary-value catalogue that
    # round-trip on their own (this family is about the verbatim bodies; payloads are judged in `attrs`)
    from props import c06

    payloads = [r for r in A.catalogue_attrs() if c06.roundtrip(r)["status"] == "ok"]
    ctx.count("unreg.payload_catalogue", len(payloads))
    # every string literal over the core pieces, alone and followed by brackets, as attribute and as type
    bodies: list[str] = []
    for st in U.exhaustive_strings(str_len):
        bodies += [st, st + ", [1, 2]", "{k = " + st + "}, (" + st + ")"]
    # bodies that span several lines: the body is verbatim text, line breaks and what follows them included
    bodies += U.MULTILINE_BODIES
    ctx.count("unreg.exhaustive_bodies", len(bodies))
    for k in range(0, len(bodies), chunk):
        part = bodies[k:k + chunk]
        one(U.spec_of_bodies(part, False), ("attr", k))
        one(U.spec_of_bodies(part, True), ("type", k))
    for k in range(n_random):
        if ctx.time_left() < 20:
            break
        one(U.random_spec(ctx.rng, ctx.rng.randint(1, 6), payloads), ("random", k))
    # the multi-line bodies once more below other operations (another indentation level of the printer)
    one(U.nested_spec(U.MULTILINE_BODIES), ("nested", 0))
    sk.finish()
    ctx.sample({"family": "unreg", "text": I.print_generic(U.build(U.spec_of_bodies(['"a\\"]", {k = "v\\")"}'], False)))})


# ---------------------------------------------------------------------------------------------
# names printed bare or quoted (attribute / property keys, DictionaryAttr keys, symbol names)
# ---------------------------------------------------------------------------------------------

# one representative per class of character the bare/quoted decision and the lexer can tell apart: identifier
# start, digit, the three punctuation suffix characters, near misses (`-`, `#`), blanks and every line-break-like
# control (Python's `$`, `\s`, str.splitlines and str.isspace each have their own idea of those), NUL, quote,
# backslash, non-ASCII letter / digit (Unicode `\w`, str.isalpha), Unicode line separators
IDENT_ALPHA = ["a", "Z", "0", "_", "$", ".", "-", " ", "\n", "\r", "\t", "\x0b", "\x0c", "\x00", "\x1f", '"', "\\",
               "é", "²", "\u2028", "\x85", "#"]
IDENT_BASES = ["key", "sym_name", "_", "x.y$z", "A0", "i32", "true", "loc"]
IDENT_EDGE = [chr(c) for c in list(range(0, 0x100)) + [0x17F, 0x212A, 0x660, 0xFF10, 0xFF21, 0x2028, 0x2029, 0x3000,
                                                      0xFEFF, 0x200B, 0x1F600]]


def ident_names(rng, max_len: int, n_random: int) -> list[str]:
    """every string over IDENT_ALPHA up to `max_len`; every identifier of IDENT_BASES with every character of
    IDENT_EDGE before it, after it and inside it; random longer mixtures"""
    out = ["".join(t) for n in range(0, max_len + 1) for t in itertools.product(IDENT_ALPHA, repeat=n)]
    for b in IDENT_BASES:
        for c in IDENT_EDGE:
            out += [b + c, c + b, b + c + b]
    for _ in range(n_random):
        out.append("".join(rng.choice(IDENT_ALPHA if rng.random() < 0.8 else IDENT_EDGE) for _ in range(rng.randint(4, 9))))
    return list(dict.fromkeys(out))


def ident_print(name: str) -> str:
    from io import StringIO

    from xdsl.printer import Printer

    io = StringIO()
    Printer(stream=io).print_identifier_or_string_literal(name)
    return io.getvalue()


def ident_readback(text: str) -> str:
    """what the parser reads where an identifier-or-string-literal is expected, as a protocol string:
    `name <cps>` (the whole text was consumed), `name <cps> rest` (something is left), `none`, `raise <Exc>`"""
    from xdsl.context import Context
    from xdsl.parser import Parser
    from xdsl.utils.mlir_lexer import MLIRTokenKind

    try:
        p = Parser(Context(), text)
        got = p.parse_optional_identifier_or_str_literal()
        if got is None:
            return "none"
        return "name " + _cps(got) + ("" if p._current_token.kind == MLIRTokenKind.EOF else " rest")  # noqa: SLF001
    except Exception as e:  # noqa: BLE001
        return "raise " + core.exc_name(e)


def ident_survives(name: str) -> bool:
    try:
        return ident_readback(ident_print(name)) == "name " + _cps(name)
    except Exception:  # noqa: BLE001
        return False


def recipe_names(r: Any) -> list[str]:
    """the names inside a payload recipe that go through print_identifier_or_string_literal"""
    out: list[str] = []
    if isinstance(r, list) and r:
        if r[0] == "symref":
            out += [bytes.fromhex(h).decode("utf-8", "surrogatepass") for h in r[1]]
        elif r[0] == "dict":
            for k, v in r[1]:
                out.append(bytes.fromhex(k).decode("utf-8", "surrogatepass"))
                out += recipe_names(v)
        else:
            for x in r[1:]:
                if isinstance(x, list):
                    out += recipe_names(x)
    return out


def spec_names(spec: dict[str, Any]) -> list[str]:
    out: list[str] = []
    for o, _, _ in A._walk(spec["ops"]):  # noqa: SLF001
        for field in ("attrs", "props"):
            for k, r in o.get(field, []):
                out.append(k)
                out += recipe_names(r)
    return out


IDENT_SITE = "xdsl.printer.Printer.print_identifier_or_string_literal"
IDENT_SIG = "name printed as identifier-or-string-literal is read back as a different name"


def run_idents(ctx: core.Ctx, max_len: int, n_random: int) -> list[str]:
    """Printer.print_identifier_or_string_literal on its own: the text written for a name, read where the parser
    expects an identifier or a string literal, must give back exactly that name and nothing else (direct: this is
    the property for the keys and symbol names of a module); bare/quoted decision vs the Lean model `isBare`.
    Returns the names the printer writes UNQUOTED (they are then placed in whole modules by `run_attrs`)."""
    names = ident_names(ctx.rng, max_len, n_random)
    lines: list[str] = []
    impl: list[str] = []
    bare: list[str] = []
    failed = 0
    for name in names:
        ctx.ev()
        try:
            text = ident_print(name)
        except Exception as e:  # noqa: BLE001
            text = None
            got = "print-raise " + core.exc_name(e)
        else:
            got = ident_readback(text)
            lines.append("bare " + _cps(name))
            impl.append("bare" if text == name else "quoted")
            if text == name:
                bare.append(name)
                ctx.nt(("idents.bare", name))
            elif len(name) <= 2:
                ctx.nt(("idents.quoted", name))
        want = "name " + _cps(name)
        if got != want:
            failed += 1
            if failed <= 3:  # (enumeration order: the shortest names come first)
                # the failing input shown is a module carrying the name as an attribute key, when that fails too
                case: dict[str, Any] = {"family": "idents", "name": _cps(name)}
                more = ""
                spec = {"ops": [{"name": "u.op", "attrs": [[name, ["int", "i", 32, 1]]]}]}
                try:
                    m = A.build(spec)
                    m.verify()
                    rt = I.roundtrip(m)
                    if not rt.ok:
                        case = {"family": "attrs", "spec": spec}
                        more = f"; the module with this attribute key does not round-trip ({rt.stage}: {rt.detail[:300]})"
                except Exception:  # noqa: BLE001
                    pass
                ctx.fail(IDENT_SITE, IDENT_SIG, case,
                         f"the name {name!r} is written as {text!r}; the parser reads that as {got!r}: a key / symbol name "
                         "of a module changes on print → parse" + more, got, want)
    ctx.count("idents.names", len(names))
    ctx.count("idents.printed_bare", len(bare))
    if failed:
        ctx.count("idents.fail", failed)
    model = ctx.model("verbatim", lines)
    i = core.diff_streams(impl, model)
    if i is not None:
        ctx.mismatch("correspondence:C04/verbatim", {"family": "idents", "name": lines[i].split()[1], "line": lines[i]},
                     impl[i], model[i],
                     "Printer.print_identifier_or_string_literal (bare or quoted) and the Lean model `isBare` disagree")
    ctx.sample({"family": "idents", "line": "bare " + _cps("k\n"), "impl": "quoted"})
    return bare


def ident_specs(names: list[str], chunk: int = 40) -> list[dict[str, Any]]:
    """the names in every place of the generic form that goes through print_identifier_or_string_literal:
    attribute-dictionary key (before `,`/`}` and before ` = `) and property key of an unregistered operation,
    attribute key of a registered one, DictionaryAttr key, SymbolRefAttr root and nested component"""
    specs = []
    hx = A.hx
    for k in range(0, len(names), chunk):
        part = names[k:k + chunk]
        refs = [n for n in part if A.constructible(["symref", [hx(n), hx(n)]])]
        specs.append({"ops": [
            {"name": "u.op", "attrs": [[n, ["unit"]] for n in part], "props": [[n, ["int", "i", 32, 1]] for n in part]},
            {"name": "test.op", "attrs": [[n, ["str", hx(n)]] for n in part]},
            {"name": "u.op", "attrs": [["d", ["dict", [[hx(n), ["unit"] if i % 2 else ["int", "i", 1, 0]] for i, n in enumerate(part)]]],
                                       ["r", ["array", [["symref", [hx(n), hx(n)]] for n in refs]]]]}]})
    return specs


def classify_payload(r: list, res: dict[str, Any]) -> tuple[str, str]:
    """(call_site, signature) for a module that fails because of ONE builtin payload which does not
    survive print → parse on its own either: the classification of the literal layer (C06), so that
    one defect carries one name in both properties"""
    from props import c06

    if r[0] == "float" and r[1] in ("f80", "f128") and res["status"] == "print-raise":
        return ("xdsl.printer.Printer.print_float",
                "FloatAttr of type f80/f128 cannot be printed (these types have no packing)")
    return c06.classify(r, res)


def run_attrs(ctx: core.Ctx, n_random: int, sk_stride: int = 1, bare_names: list[str] | None = None) -> None:
    """builtin attribute / type payloads from the boundary-value catalogue and from the C06 generator, on
    registered and unregistered operations of several names and nesting depths (see c04_attrs.py)"""
    from props import c06
    from props import c06_values as V

    sk = S.SkBatch(ctx, "attrs", stride=sk_stride)

    def outcome(spec: dict[str, Any]):
        try:
            m = A.build(spec)
            m.verify()
        except Exception:  # noqa: BLE001
            return None, None
        return m, I.roundtrip(m)

    def one(spec: dict[str, Any], key: Any) -> None:
        m, rt = outcome(spec)
        if m is None:
            # the constructors / the verifier refuse it: outside the quantifier
            ctx.count("attrs.not_constructible_or_unverified")
            return
        ctx.count("attrs.modules")
        ctx.ev()
        ctx.nt(("attrs", key))
        assert rt is not None
        if rt.ok or rt.m2 is not None:
            sk.add(m, {"family": "attrs", "spec": spec}, rt.ok, rt.m2)
        if rt.ok:
            return
        # shrink: the smallest sub-spec that fails at the same stage
        best, best_rt = spec, rt
        for cand in A.payload_specs(spec):  # first: one payload alone on a plain operation
            mc, rc = outcome(cand)
            if mc is not None and rc is not None and not rc.ok and rc.stage == rt.stage:
                best, best_rt = cand, rc
                break
        for _ in range(3):
            improved = False
            for cand in A.sub_specs(best):
                if len(str(cand)) >= len(str(best)):
                    continue
                mc, rc = outcome(cand)
                if mc is not None and rc is not None and not rc.ok and rc.stage == best_rt.stage:
                    best, best_rt, improved = cand, rc, True
            if not improved:
                break
        ctx.count(f"attrs.fail.{best_rt.stage}")
        case = {"family": "attrs", "spec": best}
        lost = [n for n in spec_names(best) if not ident_survives(n)]
        if lost:
            # a key / symbol name of the shrunk module does not survive print → read on its own
            ctx.fail(IDENT_SITE, IDENT_SIG, case,
                     f"the name {lost[0]!r} is written as {ident_print(lost[0])!r}, which the parser reads as "
                     f"{ident_readback(ident_print(lost[0]))!r}; the module carrying it does not round-trip "
                     f"({best_rt.stage}: {best_rt.detail[:300]})",
                     {"stage": best_rt.stage, "text": best_rt.text1[:1500], "text2": best_rt.text2[:1500]}, None)
            return
        r = A.single_recipe(best)
        if r is not None:
            res = c06.roundtrip(r)
            if res["status"] not in ("ok", "ctor"):
                # the payload fails on its own: descend to the smallest part of it that does, keep it as the
                # case when a module carrying only that part fails as well
                small = c06.shrink(r)
                sres = c06.roundtrip(small)
                if small != r and sres["status"] not in ("ok", "ctor"):
                    cand = A.with_single_recipe(best, small)
                    mc, rc = outcome(cand) if cand is not None else (None, None)
                    if mc is not None and rc is not None and not rc.ok:
                        best, best_rt, r, res = cand, rc, small, sres
                        case = {"family": "attrs", "spec": best}
                site, sig = classify_payload(r, res)
                ctx.fail(site, sig, case,
                         f"a module carrying this payload does not round-trip ({best_rt.stage}: {best_rt.detail[:300]}); "
                         f"the payload alone: {res['status']}, printed {res.get('text')!r}",
                         {"stage": best_rt.stage, "text": best_rt.text1[:1500], "text2": best_rt.text2[:1500]}, None)
                return
        site, sig, desc = classify_rt(best_rt)
        ctx.fail(site, sig, case, desc, {"stage": best_rt.stage, "text": best_rt.text1[:1500], "text2": best_rt.text2[:1500]}, None)

    specs = A.catalogue_specs()
    ctx.count("attrs.catalogue_payloads", len(A.catalogue_attrs()) + len(A.catalogue_types()))
    for k, spec in enumerate(specs):
        one(spec, ("catalogue", k))
    # names: every name the printer writes unquoted, every short name, the edge family around `key` (see run_idents)
    short = [n for n in ident_names(ctx.rng, 2, 0) if len(n) <= 2 or n.startswith("key") or n.endswith("key")]
    # (of the edge family only the instances around `key` are placed in modules: the other bases differ from them
    # by the identifier part alone, which `run_idents` has checked directly)
    inames = list(dict.fromkeys([n for n in bare_names or [] if len(n) <= 3 or "key" in n] + short))
    ctx.count("attrs.ident_names", len(inames))
    for k, spec in enumerate(ident_specs(inames)):
        if ctx.time_left() < 20:
            break
        one(spec, ("idents", k))
    gen = V.Gen(ctx.rng, V.FLOAT_TYPES_MAIN + V.FLOAT_TYPES_MAIN + V.FLOAT_TYPES_SMALL)
    for k in range(n_random):
        if ctx.time_left() < 20:
            break
        one(A.random_spec(ctx.rng, gen), ("random", k))
    sk.finish()
    ctx.sample({"family": "attrs", "text": I.print_generic(A.build(A.spec_of(
        [["float", "f64", V.d2h(1234567.0)], ["dense", "tensor", [2], ["f", "f64"], [V.d2h(float(2**53)), V.d2h(-0.0)]]],
        [["tensorty", ["fty", "f64"], [2], None]], ["op"])))[:900]})


# ---------------------------------------------------------------------------------------------
# text that must pass unchanged: verbatim bodies and quoted operation names (Lean model `verbatim`)
# ---------------------------------------------------------------------------------------------

def _cps(s: str) -> str:
    return ",".join(str(ord(c)) for c in s) if s else "-"


def _cps_list(xs: list[str]) -> str:
    return ";".join(_cps(x) if x else "~" for x in xs) if xs else "-"


LOOKUP_NAMES = A.UNREG_NAMES + ["test.op", "builtin.module", "func.func", "func.return", "call", "unrealized_conversion_cast",
                                "op.op", "test", "builtin", ""]
LOOKUP_PARENT = {"builtin": '"builtin.module"', "test": '"test.op"', "func": '"func.func"'}


def run_verbatim(ctx: core.Ctx, n_random: int) -> None:
    """(a) BasePrinter.print_string at every indentation vs `printString`; an unregistered attribute printed at
    every indentation must show its body verbatim.  (b) Context.get_optional_op with a dialect stack vs `lookup`;
    the class the parser finds for a quoted name below operations of other dialects vs `lookupGeneric`, and
    directly: it must carry that name."""
    from io import StringIO

    from xdsl.context import Context
    from xdsl.dialects.builtin import Builtin, UnregisteredAttr, UnregisteredOp
    from xdsl.dialects.func import Func
    from xdsl.dialects.test import Test
    from xdsl.parser import Parser
    from xdsl.printer import Printer

    lines: list[str] = []
    impl: list[str] = []
    cases: list[Any] = []

    # ---- (a)
    texts = list(U.MULTILINE_BODIES) + ["".join(t) for n in range(0, 5) for t in itertools.product("a\n ", repeat=n)]
    for _ in range(n_random):
        texts.append("".join(ctx.rng.choice(["a", "\n", " ", "\t", "\r", "é", ",", "\n\n"]) for _ in range(ctx.rng.randint(1, 12))))
    cls = UnregisteredAttr.with_name_and_type("d.a", False)
    for text in texts:
        for lvl in (0, 1, 3):
            io = StringIO()
            p = Printer(stream=io)
            p._indent = lvl  # noqa: SLF001
            p.print_string(text)
            lines.append(f"pstr {lvl * p.indent_num_spaces} {_cps(text)}")
            impl.append(_cps(io.getvalue()))
            cases.append({"family": "verbatim", "text": text, "indent": lvl})
            io = StringIO()
            p = Printer(stream=io)
            p._indent = lvl  # noqa: SLF001
            p.print_string(text, indent=0)
            lines.append(f"pstr 0 {_cps(text)}")
            impl.append(_cps(io.getvalue()))
            cases.append({"family": "verbatim", "text": text, "indent": lvl, "explicit_indent": 0})
            ctx.ev()
            if "\n" in text and lvl:
                ctx.nt(("verbatim", text, lvl))
            # direct: an unregistered attribute shows its body verbatim wherever it is printed
            if text and U.scan_ok(text):
                io = StringIO()
                p = Printer(stream=io)
                p._indent = lvl  # noqa: SLF001
                p.print_attribute(cls("d.a", False, False, text))
                if io.getvalue() != f"#d.a<{text}>":
                    ctx.fail("xdsl.dialects.builtin.UnregisteredAttr.print_builtin",
                             "multi-line body of an unregistered attribute/type is re-indented by the printer",
                             {"family": "verbatim", "text": text, "indent": lvl},
                             "the body of an unregistered attribute is verbatim text; printed at this indentation level it "
                             "comes out changed", io.getvalue(), f"#d.a<{text}>")
    ctx.count("verbatim.print_string_cases", len(lines))

    # ---- (b)
    def fresh() -> Context:
        c = Context(allow_unregistered=True)
        for d in (Builtin, Test, Func):
            c.load_dialect(d)
        return c

    known = sorted(o.name for o in fresh().loaded_ops)
    kn = _cps_list(known)

    def show(cls_) -> str:
        if issubclass(cls_, UnregisteredOp) and cls_ is not UnregisteredOp:  # (the bare class is `builtin.unregistered`)
            return "unreg " + _cps(cls_.create().op_name.data)
        return "reg " + _cps(cls_.name)

    dialects = ["builtin", "test", "func", "u"]
    stacks: list[list[str]] = [[]] + [[d] for d in dialects] + [[a, b] for a in dialects for b in dialects]
    stacks += [["builtin", "test", "func"], ["func", "test", "builtin"]]
    n0 = len(lines)
    for name in LOOKUP_NAMES:
        for stack in stacks:
            got = fresh().get_optional_op(name, dialect_stack=stack)
            lines.append(f"lookup {kn} {_cps_list(stack)} {_cps(name)}")
            impl.append("none" if got is None else show(got))
            cases.append({"family": "verbatim", "lookup": name, "stack": stack})
            ctx.ev()
            if any(f"{d}.{name}" in known for d in stack):
                ctx.nt(("lookup", name, tuple(stack)))
            if name == "" or any(d not in LOOKUP_PARENT for d in stack):
                continue
            # the quoted name of the generic form below operations of these dialects
            text = f'"{name}"() : () -> ()'
            for d in reversed(stack):
                text = LOOKUP_PARENT[d] + "() ({\n" + text + "\n}) : () -> ()"
            try:
                m = Parser(fresh(), text).parse_module()
                inner = list(m.walk())[-1]
                got_s = show(type(inner))
            except Exception as e:  # noqa: BLE001
                got_s = "raise " + core.exc_name(e)
            lines.append(f"glookup {kn} {_cps(name)}")
            impl.append(got_s)
            case = {"family": "verbatim", "text": text}
            cases.append(case)
            want = ("reg " if name in known else "unreg ") + _cps(name)
            if got_s != want:
                ctx.fail("xdsl.parser.core.Parser.parse_operation",
                         "quoted operation name without that dialect prefix is looked up in the enclosing dialects",
                         case, "the generic form spells operation names in full; the operation read back must carry the "
                         "quoted name", got_s, want)
    ctx.count("verbatim.lookup_cases", len(lines) - n0)
    model = ctx.model("verbatim", lines)
    i = core.diff_streams(impl, model)
    if i is not None:
        ctx.mismatch("correspondence:C04/verbatim", {**cases[i], "line": lines[i][:300]}, impl[i], model[i],
                     "BasePrinter.print_string / Context.get_optional_op / the parser's operation lookup and the Lean model "
                     "`verbatim` disagree")
    ctx.sample({"family": "verbatim", "line": "pstr 2 " + _cps("a\nb"), "impl": _cps("a\n  b")})


def module_nontrivial(text: str) -> bool:
    return bool(re.search(r"[%^][A-Za-z_$.-]", text)) or "{" in text


def run_corpus(ctx: core.Ctx, stride: int, pass_names: list[str], pass_stride: int,
               mut: "S.MutBatch | None" = None, mut_p: float = 0.0, mut_k: int = 0, sk_stride: int = 1) -> None:
    chunks = I.corpus_chunks()
    ctx.count("corpus.chunks", len(chunks))
    sel = [c for k, c in enumerate(chunks) if stride <= 1 or (k + ctx.seed) % stride == 0]
    passes = load_passes(pass_names)
    nmod = 0
    sk = S.SkBatch(ctx, "corpus", mut, mut_p, mut_k, sk_stride)
    skp = S.SkBatch(ctx, "pass")
    for k, (path, idx, text) in enumerate(sel):
        if ctx.time_left() < 15:
            ctx.count("corpus.skipped_for_time", len(sel) - k)
            break
        m = I.parse_verified(text)
        if m is None:
            ctx.count("corpus.unparsed_or_unverified")
            continue
        nmod += 1
        ctx.count("corpus.verified")
        if module_nontrivial(text):
            ctx.nt(("corpus", path, idx))
        check_module(ctx, m, {"family": "corpus", "file": path, "chunk": idx}, "corpus", sk)
        if passes and (k % pass_stride == 0):
            for pname, pcls in passes:
                if ctx.time_left() < 15:
                    break
                out = apply_pass(pcls, text)
                if out is None:
                    ctx.count("pass.not_applicable")
                    continue
                ctx.count("pass.outputs")
                ctx.programs += 1
                ctx.nt(("pass", pname, path, idx))
                check_module(ctx, out, {"family": "pass", "pass": pname, "file": path, "chunk": idx}, "pass", skp)
    sk.finish()
    skp.finish()
    ctx.sample({"family": "corpus", "verified_modules": nmod})


PASSES_QUICK = ["canonicalize", "cse", "dce", "convert-scf-to-cf", "lower-affine"]
PASSES_THOROUGH = PASSES_QUICK + [
    "constant-fold-interp", "convert-arith-to-riscv", "convert-func-to-riscv-func", "convert-memref-to-riscv",
    "convert-scf-to-riscv-scf", "convert-riscv-scf-to-riscv-cf", "reconcile-unrealized-casts", "riscv-allocate-registers",
    "convert-linalg-to-loops", "convert-memref-to-ptr", "convert-ptr-to-riscv", "scf-for-loop-flatten",
    "canonicalize-dmp", "convert-stencil-to-ll-mlir", "stencil-shape-inference", "licm", "test-lower-linalg-to-snitch",
    "convert-func-to-x86-func", "convert-arith-to-x86", "mlir-opt",
]


def load_passes(names: list[str]):
    from xdsl.transforms import get_all_passes

    allp = get_all_passes()
    out = []
    for n in names:
        if n in allp and n != "mlir-opt":
            try:
                out.append((n, allp[n]()))
            except Exception:  # noqa: BLE001
                pass
    return out


def apply_pass(pcls, text: str):
    """fresh parse → pass → verify; None when the pass raises, changes nothing or breaks verification"""
    import warnings

    try:
        ctx = I.fresh_context()
        m = I.parse_module(text, ctx)
        before = I.print_generic(m)
        p = pcls()
        with warnings.catch_warnings():
            warnings.simplefilter("ignore")
            p.apply(ctx, m)
        m.verify()
        if I.print_generic(m) == before:
            return None
        return m
    except BaseException as e:  # noqa: BLE001
        if isinstance(e, (KeyboardInterrupt, SystemExit)):
            raise
        return None


# ---------------------------------------------------------------------------------------------

def run(ctx: core.Ctx) -> None:
    import time

    timing: dict[str, float] = {}

    def timed(name: str, f, *a, **k) -> None:
        t = time.time()
        f(*a, **k)
        timing[name] = round(time.time() - t, 1)

    timed("lean", ctx.lean)
    mut = S.MutBatch(ctx)
    if ctx.tier == "quick":
        timed("accept", run_accept, ctx, 300)
        timed("corner", run_corner, ctx, mut, 25)
        timed("unreg", run_unreg, ctx, 400, 3)
        bare: list[str] = []
        timed("idents", lambda: bare.extend(run_idents(ctx, 3, 300)))
        timed("attrs", run_attrs, ctx, 250, sk_stride=2, bare_names=bare)
        timed("verbatim", run_verbatim, ctx, 100)
        timed("names", run_names, ctx, val_len=4, ext_len=2, blk_len=3, blk_ext_len=2, scoped_len=4, sk_stride=3)
        timed("random", run_random, ctx, 500, mut, 0.15, 8)
        # the skeleton leg sees every second verified chunk per run (which half depends on the seed)
        timed("corpus", run_corpus, ctx, stride=1, pass_names=PASSES_QUICK, pass_stride=7, mut=mut, mut_p=0.1, mut_k=8,
              sk_stride=2)
    else:
        timed("accept", run_accept, ctx, 5000)
        timed("corner", run_corner, ctx, mut, 400)
        timed("unreg", run_unreg, ctx, 3000, 4)
        bare = []
        timed("idents", lambda: bare.extend(run_idents(ctx, 4, 20000)))
        timed("attrs", run_attrs, ctx, 6000, bare_names=bare)
        timed("verbatim", run_verbatim, ctx, 3000)
        timed("names", run_names, ctx, val_len=5, ext_len=3, blk_len=4, blk_ext_len=3, scoped_len=5)
        timed("random", run_random, ctx, 8000, mut, 0.2, 20)
        timed("corpus", run_corpus, ctx, stride=1, pass_names=PASSES_THOROUGH, pass_stride=1, mut=mut, mut_p=0.5, mut_k=20)
    timed("mutations", mut.finish)
    ctx.extra["timing_s"] = timing
    ctx.exhaustive = True
    ctx.extra["exhaustive_scope"] = (
        "names: all raw-hint lists over the stated alphabets up to the length bound (values, blocks, scoped "
        "sequences); corpus: every chunk of tests/**/*.mlir; random programs and pass outputs are samples")


def replay_verbatim(ctx: core.Ctx, case: dict) -> int:
    from io import StringIO

    from xdsl.dialects.builtin import UnregisteredAttr, UnregisteredOp
    from xdsl.printer import Printer

    if "lookup" in case:
        from xdsl.context import Context
        from xdsl.dialects.builtin import Builtin
        from xdsl.dialects.func import Func
        from xdsl.dialects.test import Test

        c = Context(allow_unregistered=True)
        for d in (Builtin, Test, Func):
            c.load_dialect(d)
        known = sorted(o.name for o in c.loaded_ops)
        got = c.get_optional_op(case["lookup"], dialect_stack=case["stack"])
        line = f"lookup {_cps_list(known)} {_cps_list(case['stack'])} {_cps(case['lookup'])}"
        print("get_optional_op:", got, "| model:", ctx.model("verbatim", [line])[0])
        return 0
    if "indent" in case:
        text, lvl = case["text"], case["indent"]
        io = StringIO()
        p = Printer(stream=io)
        p._indent = lvl  # noqa: SLF001
        p.print_string(text, indent=case.get("explicit_indent"))
        k = 0 if case.get("explicit_indent") == 0 else lvl * p.indent_num_spaces
        print("print_string:", repr(io.getvalue()), "| model:", ctx.model("verbatim", [f"pstr {k} {_cps(text)}"])[0])
        io = StringIO()
        p = Printer(stream=io)
        p._indent = lvl  # noqa: SLF001
        cls = UnregisteredAttr.with_name_and_type("d.a", False)
        p.print_attribute(cls("d.a", False, False, text))
        bad = io.getvalue() != f"#d.a<{text}>"
        print("unregistered attribute printed:", repr(io.getvalue()))
        print("property", "FAILS" if bad else "holds", "on this case")
        return 1 if bad else 0
    m = I.parse_module(case["text"])
    inner = list(m.walk())[-1]
    name = re.match(r'(?s).*"([^"]*)"\(\) : \(\) -> \(\)', case["text"]).group(1)  # type: ignore[union-attr]
    got = inner.op_name.data if isinstance(inner, UnregisteredOp) else inner.name
    print(case["text"])
    print("innermost operation read back as:", type(inner).__name__, got, "| written:", name)
    bad = got != name
    print("property", "FAILS" if bad else "holds", "on this case")
    return 1 if bad else 0


def replay(ctx: core.Ctx, body: dict) -> int:
    case = body["case"]
    fam = case.get("family")
    bad = False
    if case.get("skeleton"):
        if fam == "mutation":
            return S.replay_mutation(ctx, case)
        if fam in ("values", "blocks", "scoped", "random"):
            m = G.build(case["spec"])
        elif fam == "unreg":
            m = U.build(case["spec"])
        elif fam == "attrs":
            m = A.build(case["spec"])
        elif fam == "corner":
            m = I.parse_module(case["text"])
        elif fam in ("corpus", "pass"):
            text = (core.REPO / case["file"]).read_text().split("// -----")[case["chunk"]]
            m = apply_pass(dict(load_passes([case["pass"]]))[case["pass"]], text) if fam == "pass" else I.parse_verified(text)
        else:
            print("unknown skeleton replay case", case)
            return 2
        if m is None:
            print("module no longer parses/verifies")
            return 0
        return S.replay_module(ctx, m, fam)
    if fam in ("values", "blocks", "scoped", "random"):
        r = run_spec(case["spec"])
        print("status:", r.status)
        print(r.text)
        if r.rt is not None:
            print("round trip:", "ok" if r.rt.ok else f"FAILS at {r.rt.stage}: {r.rt.detail}")
            if r.rt.text2:
                print("second text:\n" + r.rt.text2)
            bad = not r.rt.ok or bool(r.ob and r.ob.inconsistent)
        if r.lines:
            lines = r.lines + r.reparse_lines
            model = ctx.model("names", lines)
            impl = r.impl + r.reparse_impl
            for l, a, m in zip(lines, impl, model):
                m = G.mask_unknown(m, a)
                print(f"  {l:32s} impl: {a:28s} model: {m}{'' if a == m else '   <-- differ'}")
    elif fam == "accept":
        from xdsl.ir import SSAValue

        raw = case["raw"]
        try:
            impl = "hint " + G.show_hint(SSAValue.extract_valid_name(raw))
        except ValueError:
            impl = "raise ValueError"
        model = ctx.model("names", ["accept " + ",".join(str(ord(c)) for c in raw)])[0]
        print("raw:", repr(raw), "implementation:", impl, "model:", model)
    elif fam == "verbatim":
        return replay_verbatim(ctx, case)
    elif fam == "idents":
        name = "".join(chr(int(c)) for c in case["name"].split(",")) if case["name"] != "-" else ""
        text = ident_print(name)
        got = ident_readback(text)
        print("name:", repr(name), "| written:", repr(text), "| read back:", got, "| model:",
              ctx.model("verbatim", ["bare " + _cps(name)])[0])
        bad = got != "name " + _cps(name)
    elif fam in ("corpus", "pass", "corner", "unreg", "attrs"):
        text = "" if fam in ("unreg", "attrs") else case["text"] if fam == "corner" else (core.REPO / case["file"]).read_text().split("// -----")[case["chunk"]]
        if fam in ("unreg", "attrs"):
            m = (U if fam == "unreg" else A).build(case["spec"])
            print(I.print_generic(m))
        elif fam == "pass":
            p = dict(load_passes([case["pass"]]))[case["pass"]]
            m = apply_pass(p, text)
        else:
            m = I.parse_verified(text)
        if m is None:
            print("module no longer parses/verifies")
            return 0
        rt = I.roundtrip(m, with_metadata=True)
        print("round trip:", "ok" if rt.ok else f"FAILS at {rt.stage}: {rt.detail}")
        if not rt.ok and rt.text2:
            print(I.text_diff_line(rt.text1, rt.text2))
        bad = not rt.ok
    else:
        print("unknown replay case", case)
        return 2
    print("property", "FAILS" if bad else "holds", "on this case")
    return 1 if bad else 0
