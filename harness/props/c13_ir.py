"""C13 helpers: custom effect-kind ops, spec -> real IR, real IR -> model tree / snapshot, oracle.

Two program streams share this file:
* stream A: func/arith/cf/scf modules parsed from text (`vp.proggen` + unreachable blocks);
* stream B: abstract specs (JSON-able) built into real IR out of `test.*` ops and a few ops defined
  here that carry the effect traits the test dialect lacks.

The ORACLE below never looks at xDSL's traits or at `get_effects`: it classifies an operation by
its NAME through a table written by hand from the meaning of the generated operation kinds.
"""
from __future__ import annotations

from typing import Any

from vp import core

# --------------------------------------------------------------------------------------------
# custom operations (defined once, lazily: imports of xdsl must happen inside functions)
# --------------------------------------------------------------------------------------------

_OPS: dict[str, Any] = {}


def custom_ops() -> dict[str, Any]:
    if _OPS:
        return _OPS
    from xdsl.irdl import (IRDLOperation, irdl_op_definition, opt_prop_def, traits_def, var_operand_def,
                           var_region_def, var_result_def, var_successor_def)
    from xdsl.ir import OpResult
    from xdsl.traits import (EffectInstance, IsTerminator, MemoryAllocEffect, MemoryEffect, MemoryEffectKind,
                             MemoryFreeEffect, MemoryReadEffect, MemoryWriteEffect, NoMemoryEffect, Pure,
                             RecursiveMemoryEffect, SymbolOpInterface)

    class AllocResultEffect(MemoryEffect):
        """ALLOC of the operation's own first result (like stencil.alloc)"""

        @classmethod
        def get_effects(cls, op):  # type: ignore[no-untyped-def]
            if op.results:
                return {EffectInstance(MemoryEffectKind.ALLOC, op.results[0])}
            return {EffectInstance(MemoryEffectKind.ALLOC)}

    class AllocOperandEffect(MemoryEffect):
        """ALLOC attached to the first operand when that is an operation result"""

        @classmethod
        def get_effects(cls, op):  # type: ignore[no-untyped-def]
            if op.operands and isinstance(op.operands[0], OpResult):
                return {EffectInstance(MemoryEffectKind.ALLOC, op.operands[0])}
            return {EffectInstance(MemoryEffectKind.ALLOC)}

    def mk(opname: str, traits: list[Any], with_sym: bool = False) -> Any:
        ns: dict[str, Any] = {
            "name": opname,
            "res": var_result_def(),
            "ops": var_operand_def(),
            "regs": var_region_def(),
            "successor": var_successor_def(),
            "traits": traits_def(*traits),
            "__module__": __name__,
        }
        if with_sym:
            ns["sym_name"] = opt_prop_def()
        cls = type("C13_" + opname.replace(".", "_"), (IRDLOperation,), ns)
        return irdl_op_definition(cls)

    _OPS.update({
        "c13.alloc": mk("c13.alloc", [MemoryAllocEffect()]),
        "c13.free": mk("c13.free", [MemoryFreeEffect()]),
        "c13.alloc_res": mk("c13.alloc_res", [AllocResultEffect()]),
        "c13.alloc_opnd": mk("c13.alloc_opnd", [AllocOperandEffect()]),
        "c13.rw": mk("c13.rw", [MemoryReadEffect(), MemoryWriteEffect()]),
        "c13.rec": mk("c13.rec", [RecursiveMemoryEffect()]),
        "c13.rec_read": mk("c13.rec_read", [RecursiveMemoryEffect(), MemoryReadEffect()]),
        "c13.pure_region": mk("c13.pure_region", [NoMemoryEffect()]),
        "c13.sympure": mk("c13.sympure", [SymbolOpInterface(), Pure()], with_sym=True),
        "c13.sym_region": mk("c13.sym_region", [SymbolOpInterface()], with_sym=True),
        "c13.termpure": mk("c13.termpure", [IsTerminator(), Pure()]),
    })
    return _OPS


# kind of a stream-B spec op -> operation name
KIND_NAME = {
    "pure": "test.pureop", "read": "test.op_with_memread", "write": "test.op_with_memwrite",
    "unknown": "test.op", "term": "test.termop", "sym": "test.op_with_symbol",
    "alloc": "c13.alloc", "free": "c13.free", "alloc_res": "c13.alloc_res", "alloc_opnd": "c13.alloc_opnd",
    "rw": "c13.rw", "rec": "c13.rec", "rec_read": "c13.rec_read", "pure_region": "c13.pure_region",
    "sympure": "c13.sympure", "sym_region": "c13.sym_region", "termpure": "c13.termpure",
    "unknown_region": "test.op",
    # unregistered operations (`"unknown.op"(…)[^bb…]` parsed with allow_unregistered): nothing is known
    # about them; `unregterm` ends a block and carries successors (a branch of an unknown dialect)
    "unreg": "builtin.unregistered", "unregterm": "builtin.unregistered",
}
REGION_KINDS = ("rec", "rec_read", "pure_region", "sym_region", "unknown_region")
TERM_KINDS = ("term", "termpure", "unregterm")

# --------------------------------------------------------------------------------------------
# ORACLE TABLE (independent of xdsl.traits): name -> (is_terminator, is_symbol, effect class, recursive)
# effect class: pure | read | write | free | alloc | alloc_res | alloc_opnd | rw | unknown
# --------------------------------------------------------------------------------------------

ARITH_PURE = {
    "arith.constant", "arith.addi", "arith.subi", "arith.muli", "arith.andi", "arith.ori", "arith.xori",
    "arith.shli", "arith.shrsi", "arith.divsi", "arith.remsi", "arith.floordivsi", "arith.cmpi", "arith.cmpf",
    "arith.addf", "arith.subf", "arith.mulf", "arith.minimumf", "arith.maximumf", "arith.index_cast",
    "arith.select",
}
ORACLE: dict[str, tuple[bool, bool, str, bool]] = {
    "test.pureop": (False, False, "pure", False),
    "test.op_with_memread": (False, False, "read", False),
    "test.op_with_memwrite": (False, False, "write", False),
    "test.op": (False, False, "unknown", False),
    "test.termop": (True, False, "unknown", False),
    "test.op_with_symbol": (False, True, "unknown", False),
    "c13.alloc": (False, False, "alloc", False),
    "c13.free": (False, False, "free", False),
    "c13.alloc_res": (False, False, "alloc_res", False),
    "c13.alloc_opnd": (False, False, "alloc_opnd", False),
    "c13.rw": (False, False, "rw", False),
    "c13.rec": (False, False, "pure", True),
    "c13.rec_read": (False, False, "read", True),
    "c13.pure_region": (False, False, "pure", False),
    "c13.sympure": (False, True, "pure", False),
    "c13.sym_region": (False, True, "unknown", False),
    "c13.termpure": (True, False, "pure", False),
    # an operation of an unknown dialect: may do anything (and, as the last operation of a block, may
    # branch to each of its successors)
    "builtin.unregistered": (False, False, "unknown", False),
    # stream A
    "func.func": (False, True, "unknown", False),
    "func.call": (False, False, "unknown", False),      # external calls log an effect; calls may do anything
    "func.return": (True, False, "unknown", False),
    "cf.br": (True, False, "unknown", False),
    "cf.cond_br": (True, False, "unknown", False),
    "scf.if": (False, False, "pure", True),
    "scf.for": (False, False, "pure", True),
    "scf.yield": (True, False, "pure", False),
    # stream C (written from the meaning of the operations: a load reads, a store writes, an allocation
    # that is not tied to a value of a removable operation is observable; the structured control-flow
    # operations do what their regions do)
    "memref.alloc": (False, False, "alloc", False),
    "memref.load": (False, False, "read", False),
    "memref.store": (False, False, "write", False),
    "scf.while": (False, False, "pure", True),
    "scf.condition": (True, False, "pure", False),
    "scf.index_switch": (False, False, "pure", True),
    "affine.if": (False, False, "pure", True),
    "affine.yield": (True, False, "pure", False),
}


def oracle_class(name: str) -> tuple[bool, bool, str, bool]:
    if name in ORACLE:
        return ORACLE[name]
    if name in ARITH_PURE:
        return (False, False, "pure", False)
    raise core.InfraError(f"C13 oracle table has no entry for {name}")


# --------------------------------------------------------------------------------------------
# stream B: spec -> real module
# --------------------------------------------------------------------------------------------
# spec op: {"k": kind, "n": #results, "u": [[label, result index] …], "s": [block index …],
#           "r": [region …]}, region = [block …], block = [op …]; labels = pre-order numbers.
# A program spec is the block of module-level operations.

def spec_labels(block: list[dict]) -> list[dict]:
    """ops of a spec in pre-order (the numbering the harness uses for ids)"""
    out: list[dict] = []

    def go(ops: list[dict]) -> None:
        for o in ops:
            out.append(o)
            for r in o.get("r", []):
                for b in r:
                    go(b)

    go(block)
    return out


def build_spec(top: list[dict]) -> Any:
    """real ModuleOp for a spec; operands are wired in a second phase (forward references, cycles)"""
    from xdsl.dialects import builtin, test
    from xdsl.dialects.builtin import ModuleOp, StringAttr, i32
    from xdsl.ir import Block, Region

    cops = custom_ops()
    by_name = {o.name: o for o in test.Test.operations}
    by_name.update(cops)
    built: list[Any] = []           # real ops in label order
    nsym = [0]

    def mk_block_ops(ops: list[dict], siblings: list[Any]) -> list[Any]:
        res = []
        for o in ops:
            idx = len(built)
            built.append(None)
            regions = []
            for r in o.get("r", []):
                blocks = [Block() for _ in r]
                for blk, bspec in zip(blocks, r):
                    for x in mk_block_ops(bspec, blocks):
                        blk.add_op(x)
                regions.append(Region(blocks))
            if o["k"] in ("unreg", "unregterm"):
                cls = builtin.UnregisteredOp.with_name("unknown.br" if o["k"] == "unregterm" else "unknown.op")
            else:
                cls = by_name[KIND_NAME[o["k"]]]
            props = {}
            if o["k"] in ("sym", "sympure", "sym_region"):
                nsym[0] += 1
                props["sym_name"] = StringAttr(f"s{nsym[0]}")
            succ = [siblings[s] for s in o.get("s", [])]
            real = cls.create(operands=[], result_types=[i32] * o.get("n", 0), properties=props,
                              successors=succ, regions=regions)
            built[idx] = real
            res.append(real)
        return res

    body = Block()
    for x in mk_block_ops(top, [body]):
        body.add_op(x)
    specs = spec_labels(top)
    assert len(specs) == len(built)
    for o, real in zip(specs, built):
        if o.get("u"):
            real.operands = [built[l].results[k] for l, k in o["u"]]
    return ModuleOp(Region([body]))


def parse_text(text: str) -> Any:
    from xdsl.context import Context
    from xdsl.dialects import affine, arith, builtin, cf, func, memref, scf, test
    from xdsl.parser import Parser

    c = Context()
    for d in (builtin.Builtin, arith.Arith, func.Func, cf.Cf, scf.Scf, test.Test, memref.MemRef, affine.Affine):
        c.load_dialect(d)
    m = Parser(c, text).parse_module()
    m.verify()
    return m


def build_case(case: dict) -> Any:
    if "mlir" in case:
        return parse_text(case["mlir"])
    return build_spec(case["spec"])


# --------------------------------------------------------------------------------------------
# numbering, snapshots
# --------------------------------------------------------------------------------------------

class Numbering:
    """ids of ops (pre-order walk of the module body) and of blocks; keeps the objects alive"""

    def __init__(self, module: Any):
        self.op: dict[int, int] = {}
        self.blk: dict[int, int] = {}
        self.keep: list[Any] = []
        for o in module.body.walk():
            self.op[id(o)] = len(self.op)
            self.keep.append(o)
        for b in self._blocks(module.body):
            self.blk[id(b)] = len(self.blk)
            self.keep.append(b)

    @staticmethod
    def _blocks(region: Any):
        for b in region.blocks:
            yield b
            for o in b.ops:
                for r in o.regions:
                    yield from Numbering._blocks(r)


class Snap:
    """structure of a module in terms of the ORIGINAL numbering"""

    def __init__(self, module: Any, num: Numbering):
        from xdsl.ir import OpResult

        self.ops: dict[int, dict] = {}
        self.blocks: dict[int, dict] = {}
        self.order: list[int] = []

        def region(r: Any, parent: int | None, ri: int) -> None:
            blist = list(r.blocks)
            for k, b in enumerate(blist):
                bk = num.blk.get(id(b), -1)
                self.blocks[bk] = {"parent": parent, "region": ri, "index": k, "ops": [], "succ": [], "last": None}
            for k, b in enumerate(blist):
                bk = num.blk.get(id(b), -1)
                for o in b.ops:
                    i = num.op.get(id(o), -1)
                    operands: list[Any] = []
                    for v in o.operands:
                        if isinstance(v, OpResult):
                            operands.append(num.op.get(id(v.op), "foreign"))
                        elif type(v).__name__ == "ErasedSSAValue":
                            operands.append("erased")
                        else:
                            operands.append(None)   # block argument
                    self.ops[i] = {"name": o.name, "blk": bk, "operands": operands,
                                   "succ": [num.blk.get(id(s), -1) for s in o.successors],
                                   "nres": len(o.results), "regions": []}
                    self.order.append(i)
                    self.blocks[bk]["ops"].append(i)
                    for rj, rr in enumerate(o.regions):
                        self.ops[i]["regions"].append([num.blk.get(id(bb), -1) for bb in rr.blocks])
                        region(rr, i, rj)
                ops = self.blocks[bk]["ops"]
                if ops:
                    self.blocks[bk]["last"] = ops[-1]

        region(module.body, None, 0)
        self.users: dict[int, list[int]] = {i: [] for i in self.ops}
        for i in self.order:
            for x in self.ops[i]["operands"]:
                if isinstance(x, int) and x in self.users and i not in self.users[x]:
                    self.users[x].append(i)
        # reachability of every block inside its own region (entry = first block of the region)
        self.reach: dict[int, bool] = {b: False for b in self.blocks}
        regs: dict[tuple, list[int]] = {}
        for b, d in self.blocks.items():
            regs.setdefault((d["parent"], d["region"]), []).append(b)
        for blist in regs.values():
            entry = min(blist, key=lambda b: self.blocks[b]["index"])
            todo = [entry]
            self.reach[entry] = True
            while todo:
                b = todo.pop()
                last = self.blocks[b]["last"]
                if last is None:
                    continue
                # control may leave a block through whatever operation ends it: the successors of the
                # last operation are followed whether or not that operation is a known terminator
                for s in self.ops[last]["succ"]:
                    if s in self.reach and not self.reach[s]:
                        self.reach[s] = True
                        todo.append(s)

    def parent_op(self, i: int) -> int | None:
        return self.blocks[self.ops[i]["blk"]]["parent"]

    def inside(self, root: int, x: Any) -> bool:
        """operation `x` is `root` or nested in it"""
        while isinstance(x, int) and x in self.ops:
            if x == root:
                return True
            x = self.parent_op(x)
        return False

    def observable(self, i: int, root: int | None = None) -> bool:
        """operation `i` may have an effect that is visible outside `root` (default: itself)"""
        root = i if root is None else root
        _t, _s, eff, rec = oracle_class(self.ops[i]["name"])
        if eff in ("write", "free", "alloc", "rw", "unknown"):
            return True
        if eff == "alloc_res" and self.ops[i]["nres"] == 0:
            return True                    # nothing to attach the allocation to: an anonymous ALLOC
        if eff == "alloc_opnd":
            first = self.ops[i]["operands"][0] if self.ops[i]["operands"] else None
            if not isinstance(first, int) or not self.inside(root, first):
                return True
        if rec:
            for blist in self.ops[i]["regions"]:
                for b in blist:
                    if not self.reach[b]:
                        continue           # code that is never executed has no effect
                    for j in self.blocks[b]["ops"]:
                        if self.observable(j, root):
                            return True
        return False

    def effect_positions(self, i: int) -> tuple[list[tuple[int, int]], list[tuple[int, int]]]:
        """for an operation with recursive effects: (region index, block index) of the operations directly
        in reachable blocks of its regions that are observable from outside `i`, and of those that have
        an effect but only a harmless one (coverage bookkeeping only: which position decides)"""
        loud: list[tuple[int, int]] = []
        quiet: list[tuple[int, int]] = []
        for ri, blist in enumerate(self.ops[i]["regions"]):
            for b in blist:
                if not self.reach[b]:
                    continue
                for j in self.blocks[b]["ops"]:
                    pos = (ri, self.blocks[b]["index"])
                    if self.observable(j, i):
                        loud.append(pos)
                    elif self.has_effect(j):
                        quiet.append(pos)
        return loud, quiet

    def has_effect(self, j: int) -> bool:
        _t, _s, eff, rec = oracle_class(self.ops[j]["name"])
        if eff != "pure":
            return True
        return rec and any(self.has_effect(x) for blist in self.ops[j]["regions"] for b in blist
                           if self.reach[b] for x in self.blocks[b]["ops"])

    def must_stay(self, i: int) -> bool:
        t, s, _e, _r = oracle_class(self.ops[i]["name"])
        return t or s or self.observable(i)


# --------------------------------------------------------------------------------------------
# ORACLE: the property's sentence on before/after snapshots
# --------------------------------------------------------------------------------------------

def oracle_sound(s0: Snap, s1: Snap) -> tuple[str, str] | None:
    """(signature, description) of the first removal the property does not allow"""
    removed = [i for i in s0.order if i not in s1.ops]
    rset = set(removed)
    for i in s1.order:
        if i not in s0.ops:
            return "operation created", f"operation {i} ({s1.ops[i]['name']}) does not exist in the input"
    for x in removed:
        o = s0.ops[x]
        if not s0.reach[o["blk"]]:
            continue                                   # sits in an unreachable block
        p = s0.parent_op(x)
        if p is not None and p in rset:
            continue                                   # goes away with the operation containing it
        t, s, _e, _r = oracle_class(o["name"])
        what = f"operation {x} ({o['name']})"
        if t:
            return "terminator removed", f"{what} is a terminator of a reachable block and was removed"
        if s:
            return "symbol operation removed", f"{what} is a symbol operation and was removed"
        if s0.observable(x):
            return ("operation with a possibly observable effect removed",
                    f"{what} may have an observable effect (write/free/alloc/unknown, possibly nested) and was removed")
        bad = [u for u in s0.users[x] if u not in rset]
        if bad:
            return ("removed operation still used by a kept operation",
                    f"{what} was removed but operation {bad[0]} ({s0.ops[bad[0]]['name']}) uses its result and was kept")
    for b, d in s0.blocks.items():
        if b in s1.blocks:
            continue
        if d["parent"] is not None and d["parent"] in rset:
            continue
        if s0.reach[b]:
            return "reachable block removed", f"block {b} (index {d['index']} of its region) is reachable and was removed"
    for i in s1.order:
        a, b = s0.ops[i], s1.ops[i]
        if a["operands"] != b["operands"]:
            return "operands of a kept operation changed", f"operation {i} ({a['name']}): {a['operands']} -> {b['operands']}"
        if a["blk"] != b["blk"] or a["succ"] != b["succ"]:
            return "kept operation moved", f"operation {i} ({a['name']}) changed block or successors"
    for b, d in s1.blocks.items():
        kept = [i for i in s0.blocks[b]["ops"] if i in s1.ops]
        if kept != d["ops"]:
            return "kept operations reordered", f"block {b}: {s0.blocks[b]['ops']} -> {d['ops']}"
    return None


def oracle_live(s: Snap) -> set[int]:
    """least set of operations that have to stay: an operation counts if it sits in a reachable block
    of the top region or of a region of an operation that stays, and it is a terminator, a symbol, may
    have an observable effect, or one of its results is used by an operation that stays"""
    live: set[int] = set()

    def visited(i: int) -> bool:
        if not s.reach[s.ops[i]["blk"]]:
            return False
        p = s.parent_op(i)
        return p is None or (p in live and visited(p))

    stay = {i: s.must_stay(i) for i in s.order}
    changed = True
    while changed:
        changed = False
        for i in s.order:
            if i in live or not visited(i):
                continue
            if stay[i] or any(u in live for u in s.users[i]):
                live.add(i)
                changed = True
    return live


def oracle_complete(s1: Snap) -> tuple[str, str, int | None] | None:
    for b, d in s1.blocks.items():
        if not s1.reach[b]:
            return "unreachable block remains after dce", f"block {b} (index {d['index']} of its region) is unreachable from the entry block", None
    live = oracle_live(s1)
    for i in s1.order:
        if i in live:
            continue
        p = s1.parent_op(i)
        if p is not None and p not in live:
            continue                                   # reported at the outermost removable operation
        users = s1.users[i]
        if not users:
            why = "none of its results is used"
        else:
            why = f"its results are only used by removable operations {users}"
        return "removable operation remains after dce", f"operation {i} ({s1.ops[i]['name']}) has no observable effect and {why}", i
    return None


# --------------------------------------------------------------------------------------------
# real module -> model tree (prefix tokens of XdslModel/DCE.lean)
# --------------------------------------------------------------------------------------------

class Unsupported(Exception):
    pass


def eff_tokens(op: Any, num: Numbering) -> tuple[list[str], bool]:
    """what `get_effects` sees on the operation itself: tokens of the own effects and the recursive flag"""
    from xdsl.ir import OpResult
    from xdsl.traits import MemoryEffect, MemoryEffectKind, RecursiveMemoryEffect

    traits = op.get_traits_of_type(MemoryEffect)
    if not traits:
        return ["U"], False
    rec = False
    toks: set[str] = set()
    for t in traits:
        if isinstance(t, RecursiveMemoryEffect):
            rec = True
            continue
        es = t.get_effects(op)
        if es is None:
            return ["U"], rec
        for e in es:
            if e.kind == MemoryEffectKind.READ:
                toks.add("r")
            elif e.kind == MemoryEffectKind.WRITE:
                toks.add("w")
            elif e.kind == MemoryEffectKind.FREE:
                toks.add("f")
            elif e.value is None:
                toks.add("a")
            elif isinstance(e.value, OpResult) and id(e.value.op) in num.op:
                toks.add(f"A{num.op[id(e.value.op)]}")
            else:
                raise Unsupported("ALLOC effect on a value that is not an operation result of the program")
    lst = sorted(toks)
    return ["K", str(len(lst)), *lst], rec


def tree_tokens(module: Any, num: Numbering) -> list[str]:
    from xdsl.dialects.builtin import UnregisteredOp
    from xdsl.ir import OpResult
    from xdsl.traits import IsTerminator, SymbolOpInterface

    out: list[str] = []

    def is_term(o: Any) -> bool:
        # The model has ONE terminator flag: it guards `would_be_trivially_dead` and decides whether
        # the successors of a block's last operation are followed.  For an unregistered operation the
        # code answers False to the first question and True to the second; the flag is True for it,
        # which is the same for `would_be_trivially_dead` since its effects are unknown (`U`).
        if isinstance(o, UnregisteredOp):
            return True
        return o.has_trait(IsTerminator, value_if_unregistered=False)

    def region(r: Any) -> None:
        blist = list(r.blocks)
        pos = {id(b): k for k, b in enumerate(blist)}
        out.extend(["R", str(len(blist))])
        for b in blist:
            ops = list(b.ops)
            out.extend(["B", str(len(ops))])
            for o in ops:
                operands = []
                for v in o.operands:
                    if isinstance(v, OpResult):
                        if id(v.op) not in num.op:
                            raise Unsupported("operand defined outside the program")
                        operands.append(str(num.op[id(v.op)]))
                    elif type(v).__name__ == "ErasedSSAValue":
                        raise Unsupported("erased operand")
                eff, rec = eff_tokens(o, num)
                succs = []
                for s in o.successors:
                    if id(s) not in pos:
                        raise Unsupported("successor outside the region")
                    succs.append(str(pos[id(s)]))
                out.extend(["O", str(num.op[id(o)]), str(len(operands)), *operands,
                            "1" if is_term(o) else "0",
                            "1" if o.has_trait(SymbolOpInterface, value_if_unregistered=False) else "0",
                            *eff, "1" if rec else "0", str(len(succs)), *succs, str(len(o.regions))])
                for rr in o.regions:
                    region(rr)

    region(module.body)
    return out


def tree_text(module: Any, num: Numbering) -> str:
    return " ".join(tree_tokens(module, num))
