"""C14: `arith.select` of an `arith.cmpf` (SelectFoldCmpfPattern) under fastmath licences.

Every cmpf predicate x fastmath flag set {none, nnan, nsz, nnan+nsz, fast} x select operand order
(a,b)/(b,a) x {f32, f64}, fed by the function arguments; every pass is run on each program and the
result compared bit-exactly (Lean reference semantics) on all pairs of
{+0, -0, +-1, +-inf, NaN, +-denormal}.  A difference is *licensed* only if the inputs really involve
the licensed feature:
  * `nnan` (or `fast`): one of the two operands is a NaN;
  * `nsz`  (or `fast`): both results are zeros and differ only in the sign of zero.
Anything else is a failing input.  In addition the real pattern is applied alone to every snippet
and compared with the Lean rule model (`arith_rules`: `selcmpf`).
"""
from __future__ import annotations

import math
import struct
from typing import Any

from vp import core, miniir

CMPF = ["false", "oeq", "ogt", "oge", "olt", "ole", "one", "ord", "ueq", "ugt", "uge", "ult", "ule", "une", "uno", "true"]
FLAGS: dict[str, tuple[str, bool, bool]] = {
    # name -> (assembly text, nnan, nsz)
    "none": ("", False, False),
    "nnan": (" fastmath<nnan>", True, False),
    "nsz": (" fastmath<nsz>", False, True),
    "nnan,nsz": (" fastmath<nnan,nsz>", True, True),
    "fast": (" fastmath<fast>", True, True),
}
SITE = "xdsl.transforms.canonicalization_patterns.arith.SelectFoldCmpfPattern.match_and_rewrite"


def corpus(t: str) -> list[float]:
    den = struct.unpack("<f", struct.pack("<I", 1))[0] if t == "f32" else 5e-324
    return [0.0, -0.0, 1.0, -1.0, math.inf, -math.inf, math.nan, den, -den]


def program(t: str, pred: str, flag: str, swapped: bool) -> str:
    x, y = ("%b", "%a") if swapped else ("%a", "%b")
    return ("builtin.module {\n"
            f"  func.func @main(%a: {t}, %b: {t}) -> {t} {{\n"
            f"    %c = arith.cmpf {pred}, %a, %b{FLAGS[flag][0]} : {t}\n"
            f"    %r = arith.select %c, {x}, {y} : {t}\n"
            f"    func.return %r : {t}\n  }}\n}}\n")


def is_zero_result(line: str) -> bool:
    """`ok [f64:0] …` / `ok [f64:8000000000000000] …` / f32 likewise"""
    if not line.startswith("ok ["):
        return False
    v = line[4:line.index("]")]
    if ":" not in v:
        return False
    t, h = v.split(":", 1)
    return h in ("0", "8000000000000000" if t == "f64" else "80000000")


def licensed(flag: str, vec: list[float], before: str, after: str) -> str | None:
    _, nnan, nsz = FLAGS[flag]
    if nnan and any(math.isnan(x) for x in vec):
        return "nnan"
    if nsz and is_zero_result(before) and is_zero_result(after):
        return "nsz"
    return None


def run(ctx: core.Ctx) -> None:
    from props import c14_tv

    passes = c14_tv.PASSES if ctx.tier == "thorough" else ["canonicalize", "cse", "constant-fold-interp"]
    progs: list[tuple[str, str, str, bool, Any, dict[str, Any]]] = []
    lines: list[str] = []
    index: list[tuple[int, str, int]] = []
    rule_lines: list[str] = []
    rule_expect: list[tuple[dict, str]] = []
    for t in ("f64", "f32"):
        vecs = [[x, y] for x in corpus(t) for y in corpus(t)]
        for pi, pred in enumerate(CMPF):
            for flag in FLAGS:
                for swapped in (False, True):
                    if ctx.time_left() < 10:
                        ctx.count("selcmpf.stopped_by_budget")
                        break
                    text = program(t, pred, flag, swapped)
                    m = c14_tv.parse(text)
                    case = {"type": t, "pred": pred, "fastmath": flag, "select_operands": "b,a" if swapped else "a,b"}
                    results: dict[str, Any] = {}
                    for pname in passes:
                        st, res = c14_tv.apply_pass(pname, m)
                        ctx.ev()
                        if st != "ok":
                            ctx.fail(c14_tv.CALL_SITE[pname], f"{pname} {'raises ' + res if st == 'raise' else 'leaves IR that does not verify (' + res + ')'} on select of cmpf",
                                     {"pass": pname, "program": text, "arg_types": [t, t], "toplevel": False, "args": [["1.0", "2.0"]]},
                                     f"pass {pname} failed on a select of a cmpf", res, "no exception; verified IR")
                            continue
                        results[pname] = res
                    bi = len(progs)
                    progs.append((t, pred, flag, swapped, m, case))
                    index.append((bi, "", len(lines)))
                    lines += c14_tv.run_lines(miniir.serialize(m), [t, t], vecs, 1000)
                    for pname, res in results.items():
                        index.append((bi, pname, len(lines)))
                        lines += c14_tv.run_lines(miniir.serialize(res), [t, t], vecs, 1000)
                    # the pattern alone vs the rule model
                    m2 = c14_tv.parse(text)
                    fired = apply_pattern_alone(m2)
                    _, nnan, nsz = FLAGS[flag]
                    rule_lines.append(f"selcmpf {pi} {int(nnan)} {int(nsz)} {int(not swapped)}")
                    rule_expect.append((case, fired))
                    if fired != "none":
                        ctx.nt(("selcmpf-fired", t, pred, flag, swapped))
    outs = ctx.model("sem", lines) if lines else []
    src: dict[int, list[str]] = {}
    nvec = 81
    for bi, pname, start in index:
        t, pred, flag, swapped, m, case = progs[bi]
        vecs = [[x, y] for x in corpus(t) for y in corpus(t)]
        if outs[start] != "ok":
            raise core.InfraError("MiniIR serialisation rejected by the Lean parser (select of cmpf)")
        o = outs[start + 1:start + 1 + nvec]
        if pname == "":
            src[bi] = o
            continue
        a = src[bi]
        for vec, x, y in zip(vecs, a, o):
            if not x.startswith("ok "):
                continue
            ctx.disagreements_checked += 1
            if x == y:
                continue
            lic = licensed(flag, vec, x, y) if pname == "canonicalize" else None
            if lic is not None:
                ctx.count(f"selcmpf.difference_licensed_by_{lic}")
                ctx.nt(("selcmpf-licensed", t, pred, flag, swapped, repr(vec)))
                continue
            site = SITE if pname == "canonicalize" else c14_tv.CALL_SITE[pname]
            ctx.fail(site, f"{pname} changes select(cmpf a, b fastmath<{flag}>) on inputs the flags do not license",
                     {"pass": pname, "program": program(t, pred, flag, swapped), "arg_types": [t, t], "toplevel": False,
                      "args": [[repr(v) for v in vec]], **case},
                     f"select(cmpf {pred} a, b fastmath<{flag}>, {case['select_operands']}) : {t} on a={vec[0]!r}, b={vec[1]!r}: the result changes although "
                     "no operand is a NaN (nnan) and the results are not zeros differing in sign only (nsz)", y, x)
    ctx.count("selcmpf.programs", len(progs))
    ctx.programs += len(progs)
    outs2 = ctx.model("arith_rules", rule_lines)
    for line, out, (case, fired) in zip(rule_lines, outs2, rule_expect):
        if out != fired:
            ctx.mismatch("correspondence:C14/arith_rules", {**case, "line": line}, fired, out,
                         "real SelectFoldCmpfPattern and the Lean rule model disagree on when / to what the select is rewritten")
    ctx.count("rule.selcmpf_compared", len(rule_lines))


def apply_pattern_alone(m: Any) -> str:
    """'maximumf' | 'minimumf' | 'none': what SelectFoldCmpfPattern alone makes of the select"""
    from xdsl.pattern_rewriter import PatternRewriteWalker
    from xdsl.transforms.canonicalization_patterns.arith import SelectFoldCmpfPattern

    PatternRewriteWalker(SelectFoldCmpfPattern(), apply_recursively=False).rewrite_module(m)
    m.verify()
    names = [o.name for o in m.walk()]
    if "arith.maximumf" in names:
        return "maximumf"
    if "arith.minimumf" in names:
        return "minimumf"
    return "none"
