"""
C22 helper: an independent RV32IM(+Zbs/Zbb immediates used by the rv32 dialect) instruction-level
machine model in Python, an assembler-text parser for the subset xDSL emits, and the encodability
("assembles") predicate.  Nothing here imports xDSL: this is the oracle side.

Machine: 32-bit registers (x0 hard-wired to zero), word memory (aligned lw/sw only; misaligned traps),
program = list of instructions / labels; pc counts list positions.  `ra` holds a return *position*
encoded as an address `TEXT + 4*pos`; the top-level caller's return address is `HALT`.
"""
from __future__ import annotations

from typing import Any

M32 = 0xFFFFFFFF
TEXT = 0x00010000
HALT = 0x0FFFFFF0
SP0 = 0x7FFF0000

ABI = (
    ["zero", "ra", "sp", "gp", "tp", "t0", "t1", "t2", "s0", "s1"]
    + [f"a{i}" for i in range(8)]
    + [f"s{i}" for i in range(2, 12)]
    + [f"t{i}" for i in range(3, 7)]
)
REGNUM = {n: i for i, n in enumerate(ABI)}
REGNUM.update({f"x{i}": i for i in range(32)})
REGNUM["fp"] = 8
CALLEE_SAVED = ["sp"] + [f"s{i}" for i in range(12)]


def sx(v: int, bits: int) -> int:
    v &= (1 << bits) - 1
    return v - (1 << bits) if v >> (bits - 1) else v


def s32(v: int) -> int:
    return sx(v, 32)


class Trap(Exception):
    """the machine cannot continue (bad pc, misaligned access, fuel, unencodable instruction)"""


R_OPS = {"add", "sub", "mul", "and", "or", "xor", "sll", "srl", "sra", "slt", "sltu", "div", "divu",
         "rem", "remu", "mulh", "mulhu", "mulhsu"}
I_OPS = {"addi", "andi", "ori", "xori", "slti", "sltiu"}
SH_OPS = {"slli", "srli", "srai", "bclri", "bexti", "binvi", "bseti", "rori"}
BR_OPS = {"beq", "bne", "blt", "bge", "bltu", "bgeu"}


def alu_r(op: str, a: int, b: int) -> int:
    """a, b unsigned 32-bit; result unsigned 32-bit"""
    sa, sb = s32(a), s32(b)
    if op == "add":
        return (a + b) & M32
    if op == "sub":
        return (a - b) & M32
    if op == "mul":
        return (a * b) & M32
    if op == "and":
        return a & b
    if op == "or":
        return a | b
    if op == "xor":
        return a ^ b
    if op == "sll":
        return (a << (b & 31)) & M32
    if op == "srl":
        return a >> (b & 31)
    if op == "sra":
        return (sa >> (b & 31)) & M32
    if op == "slt":
        return 1 if sa < sb else 0
    if op == "sltu":
        return 1 if a < b else 0
    if op == "mulh":
        return ((sa * sb) >> 32) & M32
    if op == "mulhu":
        return ((a * b) >> 32) & M32
    if op == "mulhsu":
        return ((sa * b) >> 32) & M32
    if op == "div":
        if b == 0:
            return M32
        if sa == -(1 << 31) and sb == -1:
            return a
        q = abs(sa) // abs(sb)
        return (q if (sa < 0) == (sb < 0) else -q) & M32
    if op == "divu":
        return M32 if b == 0 else a // b
    if op == "rem":
        if b == 0:
            return a
        if sa == -(1 << 31) and sb == -1:
            return 0
        r = abs(sa) % abs(sb)
        return (-r if sa < 0 else r) & M32
    if op == "remu":
        return a if b == 0 else a % b
    raise Trap(f"unknown R op {op}")


def alu_i(op: str, a: int, imm: int) -> int:
    """imm is the *decoded* (sign-extended 12 bit) immediate as a Python int"""
    b = imm & M32
    if op == "addi":
        return (a + b) & M32
    if op == "andi":
        return a & b
    if op == "ori":
        return a | b
    if op == "xori":
        return a ^ b
    if op == "slti":
        return 1 if s32(a) < imm else 0
    if op == "sltiu":
        return 1 if a < b else 0
    raise Trap(f"unknown I op {op}")


def alu_sh(op: str, a: int, sh: int) -> int:
    if op == "slli":
        return (a << sh) & M32
    if op == "srli":
        return a >> sh
    if op == "srai":
        return (s32(a) >> sh) & M32
    if op == "bclri":
        return a & ~(1 << sh) & M32
    if op == "bexti":
        return (a >> sh) & 1
    if op == "binvi":
        return a ^ (1 << sh)
    if op == "bseti":
        return a | (1 << sh)
    if op == "rori":
        return ((a >> sh) | (a << (32 - sh))) & M32 if sh else a
    raise Trap(f"unknown shift op {op}")


def branch_taken(op: str, a: int, b: int) -> bool:
    if op == "beq":
        return a == b
    if op == "bne":
        return a != b
    if op == "blt":
        return s32(a) < s32(b)
    if op == "bge":
        return s32(a) >= s32(b)
    if op == "bltu":
        return a < b
    if op == "bgeu":
        return a >= b
    raise Trap(f"unknown branch {op}")


# ------------------------------------------------------------------------------------------------
# instruction form: (mnemonic, [args]); register args are strings, immediates ints, labels ("@", name)
# a label definition is ("label", [name])
# ------------------------------------------------------------------------------------------------

def is_phys(r: Any) -> bool:
    return isinstance(r, str) and r in REGNUM


def is_virtual(r: Any) -> bool:
    return isinstance(r, str) and r.startswith("v") and r[1:].isdigit()


def encodable(ins: tuple[str, list[Any]], allow_virtual: bool = False) -> str | None:
    """None when the instruction can be assembled for RV32, else the reason."""
    m, a = ins

    def reg(r: Any) -> bool:
        return is_phys(r) or (allow_virtual and is_virtual(r))

    def regs(*rs: Any) -> str | None:
        for r in rs:
            if not reg(r):
                return f"operand {r!r} is not a register"
        return None

    if m == "label":
        return None
    if m in R_OPS:
        return regs(*a) if len(a) == 3 else "arity"
    if m in I_OPS:
        if len(a) != 3:
            return "arity"
        if not isinstance(a[2], int):
            return f"immediate {a[2]!r} is not an integer"
        return regs(a[0], a[1]) or (None if -2048 <= a[2] <= 2047 else f"immediate {a[2]} does not fit 12 signed bits")
    if m in SH_OPS:
        if len(a) != 3:
            return "arity"
        if not isinstance(a[2], int):
            return f"shift amount {a[2]!r} is not an integer"
        return regs(a[0], a[1]) or (None if 0 <= a[2] <= 31 else f"shift amount {a[2]} not in [0,31]")
    if m == "li":
        if len(a) != 2 or not isinstance(a[1], int):
            return "li needs a register and an integer"
        return regs(a[0]) or (None if -(1 << 31) <= a[1] < (1 << 32) else f"li immediate {a[1]} is not a 32-bit value")
    if m == "mv":
        return regs(*a) if len(a) == 2 else "arity"
    if m in ("seqz", "snez", "neg", "not"):
        return regs(*a) if len(a) == 2 else "arity"
    if m in ("lw", "sw"):
        if len(a) != 3 or not isinstance(a[2], int):
            return "memory operand"
        return regs(a[0], a[1]) or (None if -2048 <= a[2] <= 2047 else f"offset {a[2]} does not fit 12 signed bits")
    if m in BR_OPS:
        if len(a) != 3 or not (isinstance(a[2], tuple) and a[2][0] == "@"):
            return "branch needs two registers and a label"
        return regs(a[0], a[1])
    if m in ("j", "jal"):
        return None if len(a) == 1 and isinstance(a[0], tuple) else "jump needs a label"
    if m in ("ret", "nop"):
        return None if not a else "arity"
    return f"unknown mnemonic {m}"


class Machine:
    def __init__(self, prog: list[tuple[str, list[Any]]], regs: dict[str, int] | None = None, mem_seed: int = 0):
        self.prog = prog
        self.r: dict[str, int] = {}
        for k, v in (regs or {}).items():
            self.set(k, v)
        self.mem: dict[int, int] = {}  # word memory: aligned byte address → 32-bit word
        self.mem_seed = mem_seed
        self.labels = {a[0]: i for i, (m, a) in enumerate(prog) if m == "label"}
        self.steps = 0

    @staticmethod
    def canon(r: str) -> str:
        return ABI[REGNUM[r]] if r in REGNUM else r

    def get(self, r: str) -> int:
        r = self.canon(r)
        return 0 if r == "zero" else self.r.get(r, 0)

    def set(self, r: str, v: int) -> None:
        r = self.canon(r)
        if r != "zero":
            self.r[r] = v & M32

    def mem0(self, addr: int) -> int:
        """initial memory word: 0, or a pseudo-random function of the address (same as Lean's mem0)"""
        return 0 if self.mem_seed == 0 else (addr * 2654435761 + self.mem_seed * 40503) & M32

    def load32(self, addr: int) -> int:
        if addr & 3:
            raise Trap(f"misaligned lw at {addr:#x}")
        return self.mem.get(addr & M32, self.mem0(addr & M32))

    def store32(self, addr: int, v: int) -> None:
        if addr & 3:
            raise Trap(f"misaligned sw at {addr:#x}")
        self.mem[addr & M32] = v & M32

    def target(self, lab: Any) -> int:
        if not (isinstance(lab, tuple) and lab[1] in self.labels):
            raise Trap(f"undefined label {lab!r}")
        return self.labels[lab[1]]

    def exec1(self, ins: tuple[str, list[Any]], pc: int) -> int | None:
        """execute one instruction at position pc; returns next position (None = halt)"""
        m, a = ins
        why = encodable(ins, allow_virtual=True)
        if why is not None:
            raise Trap(f"cannot assemble `{fmt(ins)}`: {why}")
        nxt = pc + 1
        if m in ("label", "nop"):
            return nxt
        if m in R_OPS:
            self.set(a[0], alu_r(m, self.get(a[1]), self.get(a[2])))
        elif m in I_OPS:
            self.set(a[0], alu_i(m, self.get(a[1]), a[2]))
        elif m in SH_OPS:
            self.set(a[0], alu_sh(m, self.get(a[1]), a[2]))
        elif m == "li":
            self.set(a[0], a[1] & M32)
        elif m == "mv":
            self.set(a[0], self.get(a[1]))
        elif m == "seqz":
            self.set(a[0], 1 if self.get(a[1]) == 0 else 0)
        elif m == "snez":
            self.set(a[0], 1 if self.get(a[1]) != 0 else 0)
        elif m == "neg":
            self.set(a[0], -self.get(a[1]))
        elif m == "not":
            self.set(a[0], ~self.get(a[1]))
        elif m == "lw":
            self.set(a[0], self.load32((self.get(a[1]) + a[2]) & M32))
        elif m == "sw":
            # operand order here is (value, base, offset), as in `sw value, offset(base)`
            self.store32((self.get(a[1]) + a[2]) & M32, self.get(a[0]))
        elif m in BR_OPS:
            if branch_taken(m, self.get(a[0]), self.get(a[1])):
                return self.target(a[2])
        elif m == "j":
            return self.target(a[0])
        elif m == "jal":
            self.set("ra", TEXT + 4 * nxt)
            return self.target(a[0])
        elif m == "ret":
            ra = self.get("ra")
            if ra == HALT:
                return None
            if ra < TEXT or (ra - TEXT) & 3 or (ra - TEXT) // 4 > len(self.prog):
                raise Trap(f"ret to a non-code address {ra:#x}")
            return (ra - TEXT) // 4
        return nxt

    def run_straight(self) -> None:
        for i, ins in enumerate(self.prog):
            if ins[0] in BR_OPS or ins[0] in ("j", "jal", "ret"):
                raise Trap("control flow in a straight-line snippet")
            self.exec1(ins, i)

    def call(self, entry: str, fuel: int = 200000) -> None:
        if entry not in self.labels:
            raise Trap(f"no label {entry}")
        self.set("ra", HALT)
        pc: int | None = self.labels[entry]
        while pc is not None:
            if pc >= len(self.prog):
                raise Trap("fell off the end of the program")
            if self.steps >= fuel:
                raise Trap("fuel")
            self.steps += 1
            pc = self.exec1(self.prog[pc], pc)


def fmt(ins: tuple[str, list[Any]]) -> str:
    m, a = ins
    if m == "label":
        return f"{a[0]}:"
    return m + " " + ", ".join(x[1] if isinstance(x, tuple) else str(x) for x in a)


# ------------------------------------------------------------------------------------------------
# assembler text (as printed by `-t riscv-asm`) → program
# ------------------------------------------------------------------------------------------------

class AsmError(Exception):
    pass


def parse_asm(text: str) -> list[tuple[str, list[Any]]]:
    prog: list[tuple[str, list[Any]]] = []
    for raw in text.splitlines():
        line = raw.split("#", 1)[0].strip()
        if not line or line.startswith("."):
            continue
        if line.endswith(":") and " " not in line:
            prog.append(("label", [line[:-1]]))
            continue
        parts = line.split(None, 1)
        m = parts[0]
        argtxt = parts[1] if len(parts) > 1 else ""
        # keep empty fields: an empty register name is what an unallocated register prints as
        toks = [t.strip() for t in argtxt.split(",")] if argtxt.strip() or "," in argtxt else []
        args: list[Any] = []
        for t in toks:
            if t in REGNUM:
                args.append(t)
            elif t.lstrip("-").isdigit():
                args.append(int(t))
            elif t.startswith(("0x", "-0x")):
                args.append(int(t, 16))
            elif t and m in BR_OPS | {"j", "jal"} and t == toks[-1]:
                args.append(("@", t))
            elif "(" in t and t.endswith(")"):
                off, base = t[:-1].split("(")
                args.append(base.strip())
                args.append(int(off) if off.strip().lstrip("-").isdigit() else off.strip())
            else:
                args.append("?" + t)  # unknown operand text: makes the instruction unencodable
        prog.append((m, args))
    return prog


# ------------------------------------------------------------------------------------------------
# protocol text for the Lean model `riscv` (XdslModel/RiscV.lean)
# ------------------------------------------------------------------------------------------------

def regnum(r: str) -> int:
    if r in REGNUM:
        return REGNUM[r]
    if is_virtual(r):
        return 32 + int(r[1:])
    raise ValueError(f"not a register: {r!r}")


def lean_instr(ins: tuple[str, list[Any]], labels: dict[str, int] | None = None) -> str:
    m, a = ins
    if m == "label":
        return "nop"
    out = [m]
    for x in a:
        if isinstance(x, tuple):
            out.append(str((labels or {})[x[1]]))
        elif isinstance(x, int):
            out.append(str(x))
        else:
            out.append(str(regnum(x)))
    return " ".join(out)


def lean_prog(prog: list[tuple[str, list[Any]]]) -> str:
    labels = {a[0]: i for i, (m, a) in enumerate(prog) if m == "label"}
    return ";".join(lean_instr(i, labels) for i in prog)


def lean_regs(regs: dict[str, int]) -> str:
    return " ".join(f"{regnum(k)}={v & M32}" for k, v in regs.items() if regnum(k) != 0)
