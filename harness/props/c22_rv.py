"""
C22 helper: an independent RV32IM(+Zbs/Zbb immediates used by the rv32 dialect) instruction-level
machine model in Python, an assembler-text parser for the subset xDSL emits, and the encodability
("assembles") predicate.  Nothing here imports xDSL: this is the oracle side.

F/D part: 32 float registers of 64 bits (single precision NaN-boxed), IEEE-754 round-to-nearest-even arithmetic
computed on exact rationals (add sub mul div min max, fused multiply-add with ONE rounding, sign injection, compares,
fld/fsd/flw/fsw); `Machine.fuse` lets the oracle evaluate a designated fadd/fsub fused with the product it consumes
(the contraction the `contract` fast-math flag licences).

Machine: 32-bit registers (x0 hard-wired to zero), word memory (aligned lw/sw only; misaligned traps),
program = list of instructions / labels; pc counts list positions.  `ra` holds a return *position*
encoded as an address `TEXT + 4*pos`; the top-level caller's return address is `HALT`.
"""
from __future__ import annotations

from typing import Any

M32 = 0xFFFFFFFF
TEXT = 0x00010000
HALT = 0x0FFFFFF0
SP0 = 0x7FFF0000

ABI = (
    ["zero", "ra", "sp", "gp", "tp", "t0", "t1", "t2", "s0", "s1"]
    + [f"a{i}" for i in range(8)]
    + [f"s{i}" for i in range(2, 12)]
    + [f"t{i}" for i in range(3, 7)]
)
REGNUM = {n: i for i, n in enumerate(ABI)}
REGNUM.update({f"x{i}": i for i in range(32)})
REGNUM["fp"] = 8
CALLEE_SAVED = ["sp"] + [f"s{i}" for i in range(12)]

# F/D register file (64-bit; single precision values are NaN-boxed)
FABI = (
    [f"ft{i}" for i in range(8)] + ["fs0", "fs1"] + [f"fa{i}" for i in range(8)]
    + [f"fs{i}" for i in range(2, 12)] + [f"ft{i}" for i in range(8, 12)]
)
FREGNUM = {n: i for i, n in enumerate(FABI)}
FCALLEE_SAVED = [f"fs{i}" for i in range(12)]
M64 = (1 << 64) - 1


def sx(v: int, bits: int) -> int:
    v &= (1 << bits) - 1
    return v - (1 << bits) if v >> (bits - 1) else v


def s32(v: int) -> int:
    return sx(v, 32)


class Trap(Exception):
    """the machine cannot continue (bad pc, misaligned access, fuel, unencodable instruction)"""


R_OPS = {"add", "sub", "mul", "and", "or", "xor", "sll", "srl", "sra", "slt", "sltu", "div", "divu",
         "rem", "remu", "mulh", "mulhu", "mulhsu"}
I_OPS = {"addi", "andi", "ori", "xori", "slti", "sltiu"}
SH_OPS = {"slli", "srli", "srai", "bclri", "bexti", "binvi", "bseti", "rori"}
BR_OPS = {"beq", "bne", "blt", "bge", "bltu", "bgeu"}
# F/D subset: what convert-arith-to-riscv emits for addf/subf/mulf/divf/minimumf/maximumf, the fused ops
# canonicalization can introduce, the sign-injection family (fmv/fneg/fabs are pseudo-instructions of it),
# loads/stores.  Everything else is "unknown mnemonic".
F_BIN = {"fadd", "fsub", "fmul", "fdiv", "fmin", "fmax"}
F_FMA = {"fmadd", "fmsub", "fnmsub", "fnmadd"}
F_SGN = {"fsgnj", "fsgnjn", "fsgnjx"}
F_CMP = {"feq", "flt", "fle"}


def fsplit(m: str) -> tuple[str, str] | None:
    """`fadd.d` → ("fadd", "d"); None for a mnemonic outside the F/D subset"""
    if "." not in m:
        return None
    base, _, prec = m.partition(".")
    if prec in ("s", "d") and (base in F_BIN or base in F_FMA or base in F_SGN or base in F_CMP or base == "fmv"):
        return base, prec
    return None


def alu_r(op: str, a: int, b: int) -> int:
    """a, b unsigned 32-bit; result unsigned 32-bit"""
    sa, sb = s32(a), s32(b)
    if op == "add":
        return (a + b) & M32
    if op == "sub":
        return (a - b) & M32
    if op == "mul":
        return (a * b) & M32
    if op == "and":
        return a & b
    if op == "or":
        return a | b
    if op == "xor":
        return a ^ b
    if op == "sll":
        return (a << (b & 31)) & M32
    if op == "srl":
        return a >> (b & 31)
    if op == "sra":
        return (sa >> (b & 31)) & M32
    if op == "slt":
        return 1 if sa < sb else 0
    if op == "sltu":
        return 1 if a < b else 0
    if op == "mulh":
        return ((sa * sb) >> 32) & M32
    if op == "mulhu":
        return ((a * b) >> 32) & M32
    if op == "mulhsu":
        return ((sa * b) >> 32) & M32
    if op == "div":
        if b == 0:
            return M32
        if sa == -(1 << 31) and sb == -1:
            return a
        q = abs(sa) // abs(sb)
        return (q if (sa < 0) == (sb < 0) else -q) & M32
    if op == "divu":
        return M32 if b == 0 else a // b
    if op == "rem":
        if b == 0:
            return a
        if sa == -(1 << 31) and sb == -1:
            return 0
        r = abs(sa) % abs(sb)
        return (-r if sa < 0 else r) & M32
    if op == "remu":
        return a if b == 0 else a % b
    raise Trap(f"unknown R op {op}")


def alu_i(op: str, a: int, imm: int) -> int:
    """imm is the *decoded* (sign-extended 12 bit) immediate as a Python int"""
    b = imm & M32
    if op == "addi":
        return (a + b) & M32
    if op == "andi":
        return a & b
    if op == "ori":
        return a | b
    if op == "xori":
        return a ^ b
    if op == "slti":
        return 1 if s32(a) < imm else 0
    if op == "sltiu":
        return 1 if a < b else 0
    raise Trap(f"unknown I op {op}")


def alu_sh(op: str, a: int, sh: int) -> int:
    if op == "slli":
        return (a << sh) & M32
    if op == "srli":
        return a >> sh
    if op == "srai":
        return (s32(a) >> sh) & M32
    if op == "bclri":
        return a & ~(1 << sh) & M32
    if op == "bexti":
        return (a >> sh) & 1
    if op == "binvi":
        return a ^ (1 << sh)
    if op == "bseti":
        return a | (1 << sh)
    if op == "rori":
        return ((a >> sh) | (a << (32 - sh))) & M32 if sh else a
    raise Trap(f"unknown shift op {op}")


def branch_taken(op: str, a: int, b: int) -> bool:
    if op == "beq":
        return a == b
    if op == "bne":
        return a != b
    if op == "blt":
        return s32(a) < s32(b)
    if op == "bge":
        return s32(a) >= s32(b)
    if op == "bltu":
        return a < b
    if op == "bgeu":
        return a >= b
    raise Trap(f"unknown branch {op}")



# ------------------------------------------------------------------------------------------------
# IEEE-754 binary32/binary64 arithmetic on bit patterns, round-to-nearest-even, RISC-V NaN rules
# (every arithmetic NaN result is the canonical quiet NaN; sign injection and moves copy bits)
# ------------------------------------------------------------------------------------------------

import struct as _struct
from fractions import Fraction as _Fr

QNAN64 = 0x7FF8000000000000
QNAN32 = 0x7FC00000


def box32(v: int) -> int:
    return 0xFFFFFFFF00000000 | (v & M32)


def unbox32(v: int) -> int:
    """a single-precision operand read from a 64-bit register: not NaN-boxed = canonical NaN"""
    return (v & M32) if (v >> 32) == M32 else QNAN32


def _fmt(d: bool) -> tuple[int, int, int, int]:
    """(precision p, emin, emax, exponent field width)"""
    return (53, -1022, 1023, 11) if d else (24, -126, 127, 8)


def fdecode(bits: int, d: bool) -> tuple[str, int, _Fr | None]:
    """("nan"|"inf"|"fin", sign, exact value)"""
    p, emin, emax, ew = _fmt(d)
    w = 64 if d else 32
    sign = (bits >> (w - 1)) & 1
    e = (bits >> (p - 1)) & ((1 << ew) - 1)
    mant = bits & ((1 << (p - 1)) - 1)
    if e == (1 << ew) - 1:
        return ("nan" if mant else "inf", sign, None)
    if e == 0:
        v = _Fr(mant) * _Fr(2) ** (emin - (p - 1))
    else:
        v = _Fr(mant | (1 << (p - 1))) * _Fr(2) ** (e - emax - (p - 1))
    return ("fin", sign, -v if sign else v)


def fround(q: _Fr, zero_sign: int, d: bool) -> int:
    """the exact rational q rounded to nearest (ties to even); an exact zero gets `zero_sign`"""
    p, emin, emax, ew = _fmt(d)
    w = 64 if d else 32
    if q == 0:
        return zero_sign << (w - 1)
    sign = 1 if q < 0 else 0
    a = -q if sign else q
    e = a.numerator.bit_length() - a.denominator.bit_length()
    if _Fr(2) ** e > a:
        e -= 1
    elif _Fr(2) ** (e + 1) <= a:
        e += 1
    qe = max(e, emin) - (p - 1)
    scaled = a / _Fr(2) ** qe
    n = scaled.numerator // scaled.denominator
    rem = scaled - n
    if rem > _Fr(1, 2) or (rem == _Fr(1, 2) and n & 1):
        n += 1
    if n == 1 << p:
        n >>= 1
        qe += 1
    if n < 1 << (p - 1):          # subnormal (or zero after rounding)
        return (sign << (w - 1)) | n
    ef = qe + (p - 1) + emax
    if ef >= (1 << ew) - 1:
        return (sign << (w - 1)) | (((1 << ew) - 1) << (p - 1))
    return (sign << (w - 1)) | (ef << (p - 1)) | (n - (1 << (p - 1)))


def _inf(sign: int, d: bool) -> int:
    p, _, _, ew = _fmt(d)
    return (sign << ((64 if d else 32) - 1)) | (((1 << ew) - 1) << (p - 1))


def fbin(op: str, x: int, y: int, d: bool) -> int:
    qnan = QNAN64 if d else QNAN32
    kx, sx_, vx = fdecode(x, d)
    ky, sy, vy = fdecode(y, d)
    if op in ("fmin", "fmax"):
        if kx == "nan" and ky == "nan":
            return qnan
        if kx == "nan":
            return y
        if ky == "nan":
            return x
        key = lambda k, s, v: (float("-inf") if s else float("inf")) if k == "inf" else v  # noqa: E731
        a, b = key(kx, sx_, vx), key(ky, sy, vy)
        if a == b:  # ±0: -0 is the smaller one
            return (x if sx_ >= sy else y) if op == "fmin" else (x if sx_ <= sy else y)
        return (x if a < b else y) if op == "fmin" else (x if a > b else y)
    if kx == "nan" or ky == "nan":
        return qnan
    if op == "fsub":
        op, sy, vy = "fadd", sy ^ 1, (None if vy is None else -vy)
    if op == "fadd":
        if kx == "inf" or ky == "inf":
            if kx == "inf" and ky == "inf":
                return qnan if sx_ != sy else _inf(sx_, d)
            return _inf(sx_ if kx == "inf" else sy, d)
        zs = sx_ if (vx == 0 and vy == 0 and sx_ == sy) else 0
        return fround(vx + vy, zs, d)
    s = sx_ ^ sy
    if op == "fmul":
        if kx == "inf" or ky == "inf":
            return qnan if (vx == 0 or vy == 0) else _inf(s, d)
        return fround(vx * vy, s, d)
    if op == "fdiv":
        if kx == "inf":
            return qnan if ky == "inf" else _inf(s, d)
        if ky == "inf":
            return s << ((64 if d else 32) - 1)
        if vy == 0:
            return qnan if vx == 0 else _inf(s, d)
        return fround(vx / vy, s, d)
    raise Trap(f"unknown float op {op}")


def ffma(x: int, y: int, z: int, d: bool) -> int:
    """x*y + z with a single rounding"""
    qnan = QNAN64 if d else QNAN32
    kx, sx_, vx = fdecode(x, d)
    ky, sy, vy = fdecode(y, d)
    kz, sz, vz = fdecode(z, d)
    if "nan" in (kx, ky, kz):
        return qnan
    ps = sx_ ^ sy
    if kx == "inf" or ky == "inf":
        if vx == 0 or vy == 0:
            return qnan
        if kz == "inf" and sz != ps:
            return qnan
        return _inf(ps, d)
    if kz == "inf":
        return _inf(sz, d)
    prod = vx * vy
    zs = ps if (prod == 0 and vz == 0 and ps == sz) else 0
    return fround(prod + vz, zs, d)


def fsgn(op: str, x: int, y: int, d: bool) -> int:
    sb = 1 << (63 if d else 31)
    sy = y & sb
    if op == "fsgnjn":
        sy ^= sb
    elif op == "fsgnjx":
        sy ^= x & sb
    return (x & (sb - 1)) | sy


def fcmp(op: str, x: int, y: int, d: bool) -> int:
    kx, sx_, vx = fdecode(x, d)
    ky, sy, vy = fdecode(y, d)
    if kx == "nan" or ky == "nan":
        return 0
    key = lambda k, s, v: (float("-inf") if s else float("inf")) if k == "inf" else v  # noqa: E731
    a, b = key(kx, sx_, vx), key(ky, sy, vy)
    return int(a == b if op == "feq" else a < b if op == "flt" else a <= b)


def f64_bits(v: float) -> int:
    return _struct.unpack("<Q", _struct.pack("<d", v))[0]


def bits_f64(b: int) -> float:
    return _struct.unpack("<d", _struct.pack("<Q", b & M64))[0]


def is_nan_bits(b: int, d: bool) -> bool:
    return fdecode(b if d else b & M32, d)[0] == "nan"

# ------------------------------------------------------------------------------------------------
# instruction form: (mnemonic, [args]); register args are strings, immediates ints, labels ("@", name)
# a label definition is ("label", [name])
# ------------------------------------------------------------------------------------------------

def is_phys(r: Any) -> bool:
    return isinstance(r, str) and r in REGNUM


def is_fphys(r: Any) -> bool:
    return isinstance(r, str) and r in FREGNUM


def is_virtual(r: Any) -> bool:
    return isinstance(r, str) and r.startswith("v") and r[1:].isdigit()


def encodable(ins: tuple[str, list[Any]], allow_virtual: bool = False) -> str | None:
    """None when the instruction can be assembled for RV32, else the reason."""
    m, a = ins

    def reg(r: Any) -> bool:
        return is_phys(r) or (allow_virtual and is_virtual(r))

    def regs(*rs: Any) -> str | None:
        for r in rs:
            if not reg(r):
                return f"operand {r!r} is not a register"
        return None

    def freg(r: Any) -> bool:
        return is_fphys(r) or (allow_virtual and is_virtual(r))

    def fregs(*rs: Any) -> str | None:
        for r in rs:
            if not freg(r):
                return f"operand {r!r} is not a float register"
        return None

    if m == "label":
        return None
    fs = fsplit(m)
    if fs is not None:
        base = fs[0]
        if base in F_BIN or base in F_SGN:
            return fregs(*a) if len(a) == 3 else "arity"
        if base in F_FMA:
            return fregs(*a) if len(a) == 4 else "arity"
        if base in F_CMP:
            return (regs(a[0]) or fregs(a[1], a[2])) if len(a) == 3 else "arity"
        return fregs(*a) if len(a) == 2 else "arity"  # fmv.s / fmv.d
    if m in ("fld", "fsd", "flw", "fsw"):
        if len(a) != 3 or not isinstance(a[2], int):
            return "memory operand"
        return fregs(a[0]) or regs(a[1]) or (None if -2048 <= a[2] <= 2047 else f"offset {a[2]} does not fit 12 signed bits")
    if m in R_OPS:
        return regs(*a) if len(a) == 3 else "arity"
    if m in I_OPS:
        if len(a) != 3:
            return "arity"
        if not isinstance(a[2], int):
            return f"immediate {a[2]!r} is not an integer"
        return regs(a[0], a[1]) or (None if -2048 <= a[2] <= 2047 else f"immediate {a[2]} does not fit 12 signed bits")
    if m in SH_OPS:
        if len(a) != 3:
            return "arity"
        if not isinstance(a[2], int):
            return f"shift amount {a[2]!r} is not an integer"
        return regs(a[0], a[1]) or (None if 0 <= a[2] <= 31 else f"shift amount {a[2]} not in [0,31]")
    if m == "li":
        if len(a) != 2 or not isinstance(a[1], int):
            return "li needs a register and an integer"
        return regs(a[0]) or (None if -(1 << 31) <= a[1] < (1 << 32) else f"li immediate {a[1]} is not a 32-bit value")
    if m == "mv":
        return regs(*a) if len(a) == 2 else "arity"
    if m in ("seqz", "snez", "neg", "not"):
        return regs(*a) if len(a) == 2 else "arity"
    if m in ("lw", "sw"):
        if len(a) != 3 or not isinstance(a[2], int):
            return "memory operand"
        return regs(a[0], a[1]) or (None if -2048 <= a[2] <= 2047 else f"offset {a[2]} does not fit 12 signed bits")
    if m in BR_OPS:
        if len(a) != 3 or not (isinstance(a[2], tuple) and a[2][0] == "@"):
            return "branch needs two registers and a label"
        return regs(a[0], a[1])
    if m in ("j", "jal"):
        return None if len(a) == 1 and isinstance(a[0], tuple) else "jump needs a label"
    if m in ("ret", "nop"):
        return None if not a else "arity"
    return f"unknown mnemonic {m}"


class Machine:
    def __init__(self, prog: list[tuple[str, list[Any]]], regs: dict[str, int] | None = None, mem_seed: int = 0,
                 dup_policy: str | None = None):
        self.prog = prog
        self.r: dict[str, int] = {}
        self.f: dict[str, int] = {}
        # contraction licence (oracle side): position of an fadd/fsub → (position of the fmul, operand index
        # of the product): that instruction is evaluated fused (one rounding) on the recorded multiplicands
        self.fuse: dict[int, tuple[int, int]] = {}
        self.mul_rec: dict[int, tuple[int, int]] = {}
        for k, v in (regs or {}).items():
            self.set(k, v)
        self.mem: dict[int, int] = {}  # word memory: aligned byte address → 32-bit word
        self.mem_seed = mem_seed
        # symbol table the way an assembler builds it: one definition per name.  A name that is defined twice makes
        # the whole unit unassemblable (`unit_errors`); the machine refuses to resolve such a name instead of
        # silently picking the first or the last definition
        self.labels: dict[str, int] = {}
        self.ambiguous: set[str] = set()
        for i, (m, a) in enumerate(prog):
            if m == "label":
                if a[0] in self.labels:
                    # `dup_policy` (only for explaining a rejected unit in a replay): what a tool that tolerated the
                    # second definition would make of it - the first or the last definition wins
                    if dup_policy is None:
                        self.ambiguous.add(a[0])
                    elif dup_policy == "last":
                        self.labels[a[0]] = i
                else:
                    self.labels[a[0]] = i
        self.steps = 0

    @staticmethod
    def canon(r: str) -> str:
        return ABI[REGNUM[r]] if r in REGNUM else r

    def get(self, r: str) -> int:
        if r in FREGNUM:
            return self.getf(r)
        r = self.canon(r)
        return 0 if r == "zero" else self.r.get(r, 0)

    def set(self, r: str, v: int) -> None:
        if r in FREGNUM:
            self.setf(r, v)
            return
        r = self.canon(r)
        if r != "zero":
            self.r[r] = v & M32

    # float register file: 64-bit patterns; physical names f-ABI, virtual names as they come
    def getf(self, r: str) -> int:
        return self.f.get(r, 0)

    def setf(self, r: str, v: int) -> None:
        self.f[r] = v & M64

    def mem0(self, addr: int) -> int:
        """initial memory word: 0, or a pseudo-random function of the address (same as Lean's mem0)"""
        return 0 if self.mem_seed == 0 else (addr * 2654435761 + self.mem_seed * 40503) & M32

    def load32(self, addr: int) -> int:
        if addr & 3:
            raise Trap(f"misaligned lw at {addr:#x}")
        return self.mem.get(addr & M32, self.mem0(addr & M32))

    def store32(self, addr: int, v: int) -> None:
        if addr & 3:
            raise Trap(f"misaligned sw at {addr:#x}")
        self.mem[addr & M32] = v & M32

    def target(self, lab: Any) -> int:
        if not (isinstance(lab, tuple) and lab[1] in self.labels):
            raise Trap(f"undefined label {lab!r}")
        if lab[1] in self.ambiguous:
            raise Trap(f"label {lab[1]} is defined twice")
        return self.labels[lab[1]]

    def exec1(self, ins: tuple[str, list[Any]], pc: int) -> int | None:
        """execute one instruction at position pc; returns next position (None = halt)"""
        m, a = ins
        why = encodable(ins, allow_virtual=True)
        if why is not None:
            raise Trap(f"cannot assemble `{fmt(ins)}`: {why}")
        nxt = pc + 1
        if m in ("label", "nop"):
            return nxt
        fs = fsplit(m)
        if fs is not None:
            self.exec_float(fs[0], fs[1], a, pc)
            return nxt
        if m in ("fld", "fsd", "flw", "fsw"):
            addr = (self.get(a[1]) + a[2]) & M32
            if m == "fsd":
                v = self.getf(a[0])
                self.store32(addr, v & M32)
                self.store32((addr + 4) & M32, v >> 32)
            elif m == "fld":
                self.setf(a[0], self.load32(addr) | (self.load32((addr + 4) & M32) << 32))
            elif m == "fsw":
                self.store32(addr, self.getf(a[0]) & M32)
            else:
                self.setf(a[0], box32(self.load32(addr)))
            return nxt
        if m in R_OPS:
            self.set(a[0], alu_r(m, self.get(a[1]), self.get(a[2])))
        elif m in I_OPS:
            self.set(a[0], alu_i(m, self.get(a[1]), a[2]))
        elif m in SH_OPS:
            self.set(a[0], alu_sh(m, self.get(a[1]), a[2]))
        elif m == "li":
            self.set(a[0], a[1] & M32)
        elif m == "mv":
            self.set(a[0], self.get(a[1]))
        elif m == "seqz":
            self.set(a[0], 1 if self.get(a[1]) == 0 else 0)
        elif m == "snez":
            self.set(a[0], 1 if self.get(a[1]) != 0 else 0)
        elif m == "neg":
            self.set(a[0], -self.get(a[1]))
        elif m == "not":
            self.set(a[0], ~self.get(a[1]))
        elif m == "lw":
            self.set(a[0], self.load32((self.get(a[1]) + a[2]) & M32))
        elif m == "sw":
            # operand order here is (value, base, offset), as in `sw value, offset(base)`
            self.store32((self.get(a[1]) + a[2]) & M32, self.get(a[0]))
        elif m in BR_OPS:
            if branch_taken(m, self.get(a[0]), self.get(a[1])):
                return self.target(a[2])
        elif m == "j":
            return self.target(a[0])
        elif m == "jal":
            self.set("ra", TEXT + 4 * nxt)
            return self.target(a[0])
        elif m == "ret":
            ra = self.get("ra")
            if ra == HALT:
                return None
            if ra < TEXT or (ra - TEXT) & 3 or (ra - TEXT) // 4 > len(self.prog):
                raise Trap(f"ret to a non-code address {ra:#x}")
            return (ra - TEXT) // 4
        return nxt

    def exec_float(self, base: str, prec: str, a: list[Any], pc: int) -> None:
        d = prec == "d"
        rd = (lambda r: self.getf(r)) if d else (lambda r: unbox32(self.getf(r)))
        wr = (lambda r, v: self.setf(r, v)) if d else (lambda r, v: self.setf(r, box32(v)))
        if base == "fmv":
            wr(a[0], rd(a[1]))
        elif base in F_SGN:
            wr(a[0], fsgn(base, rd(a[1]), rd(a[2]), d))
        elif base in F_CMP:
            self.set(a[0], fcmp(base, rd(a[1]), rd(a[2]), d))
        elif base in F_FMA:
            x, y, z = rd(a[1]), rd(a[2]), rd(a[3])
            sb = 1 << (63 if d else 31)
            if base in ("fnmsub", "fnmadd"):   # -(x*y) ± z
                x ^= sb
            if base in ("fmsub", "fnmadd"):
                z ^= sb
            wr(a[0], ffma(x, y, z, d))
        else:
            x, y = rd(a[1]), rd(a[2])
            if base == "fmul":
                self.mul_rec[pc] = (x, y)
            lic = self.fuse.get(pc)
            if lic is not None and base in ("fadd", "fsub") and lic[0] in self.mul_rec:
                mx, my = self.mul_rec[lic[0]]
                sb = 1 << (63 if d else 31)
                other = y if lic[1] == 0 else x
                if base == "fsub" and lic[1] == 0:      # m - c  = fma(a, b, -c)
                    other ^= sb
                elif base == "fsub":                    # c - m  = fma(-a, b, c)
                    mx ^= sb
                wr(a[0], ffma(mx, my, other, d))
            else:
                wr(a[0], fbin(base, x, y, d))

    def run_straight(self) -> None:
        for i, ins in enumerate(self.prog):
            if ins[0] in BR_OPS or ins[0] in ("j", "jal", "ret"):
                raise Trap("control flow in a straight-line snippet")
            self.exec1(ins, i)

    def call(self, entry: str, fuel: int = 200000) -> None:
        if entry not in self.labels:
            raise Trap(f"no label {entry}")
        if entry in self.ambiguous:
            raise Trap(f"label {entry} is defined twice")
        self.set("ra", HALT)
        pc: int | None = self.labels[entry]
        while pc is not None:
            if pc >= len(self.prog):
                raise Trap("fell off the end of the program")
            if self.steps >= fuel:
                raise Trap("fuel")
            self.steps += 1
            pc = self.exec1(self.prog[pc], pc)


def label_defs(prog: list[tuple[str, list[Any]]]) -> list[str]:
    """the names the unit defines, in order of definition (function names and local labels share one namespace)"""
    return [a[0] for m, a in prog if m == "label"]


def duplicates(names: list[str]) -> list[str]:
    seen: set[str] = set()
    out: list[str] = []
    for n in names:
        if n in seen and n not in out:
            out.append(n)
        seen.add(n)
    return out


def assemble(prog: list[tuple[str, list[Any]]]) -> tuple[str, Any]:
    """the unit's symbol table: ("dup", name) - the first name that gets a second definition; ("undef", name) - the
    first branch / jump target without definition; ("ok", [position of the definition per resolved target, in
    instruction order]).  `jal` to a name the unit does not define is left to the linker."""
    dups = duplicates(label_defs(prog))
    if dups:
        return ("dup", dups[0])
    table = {a[0]: i for i, (m, a) in enumerate(prog) if m == "label"}
    out = []
    for m, a in prog:
        if (m in BR_OPS or m in ("j", "jal")) and a and isinstance(a[-1], tuple):
            n = a[-1][1]
            if n in table:
                out.append(table[n])
            elif m != "jal":
                return ("undef", n)
    return ("ok", out)


def lean_unit(prog: list[tuple[str, list[Any]]]) -> tuple[str, dict[str, int]]:
    """protocol text of the unit for the Lean model `riscv_labels` (names numbered by first appearance)"""
    idx: dict[str, int] = {}
    defined = set(label_defs(prog))
    items = []
    for m, a in prog:
        if m == "label":
            items.append(f"L{idx.setdefault(a[0], len(idx))}")
        elif (m in BR_OPS or m in ("j", "jal")) and a and isinstance(a[-1], tuple) and not (m == "jal" and a[-1][1] not in defined):
            items.append(f"T{idx.setdefault(a[-1][1], len(idx))}")
        else:
            items.append("I")
    return "asm " + " ".join(items), idx


def unit_errors(prog: list[tuple[str, list[Any]]]) -> list[str]:
    """why an assembler rejects the unit as a whole (independent of any input): a symbol defined twice, or a
    branch / jump to a label the unit does not define (`jal` may name an external function: left to the linker)"""
    out = [f"label {n} is defined twice" for n in duplicates(label_defs(prog))]
    defined = set(label_defs(prog))
    for m, a in prog:
        if (m in BR_OPS or m == "j") and a and isinstance(a[-1], tuple) and a[-1][1] not in defined:
            msg = f"`{fmt((m, a))}`: label {a[-1][1]} is not defined"
            if msg not in out:
                out.append(msg)
    return out


def fmt(ins: tuple[str, list[Any]]) -> str:
    m, a = ins
    if m == "label":
        return f"{a[0]}:"
    return m + " " + ", ".join(x[1] if isinstance(x, tuple) else str(x) for x in a)


# ------------------------------------------------------------------------------------------------
# assembler text (as printed by `-t riscv-asm`) → program
# ------------------------------------------------------------------------------------------------

class AsmError(Exception):
    pass


def parse_asm(text: str) -> list[tuple[str, list[Any]]]:
    prog: list[tuple[str, list[Any]]] = []
    for raw in text.splitlines():
        line = raw.split("#", 1)[0].strip()
        if not line or line.startswith("."):
            continue
        if line.endswith(":") and " " not in line:
            prog.append(("label", [line[:-1]]))
            continue
        parts = line.split(None, 1)
        m = parts[0]
        argtxt = parts[1] if len(parts) > 1 else ""
        # keep empty fields: an empty register name is what an unallocated register prints as
        toks = [t.strip() for t in argtxt.split(",")] if argtxt.strip() or "," in argtxt else []
        args: list[Any] = []
        for t in toks:
            if t in REGNUM or t in FREGNUM:
                args.append(t)
            elif t.lstrip("-").isdigit():
                args.append(int(t))
            elif t.startswith(("0x", "-0x")):
                args.append(int(t, 16))
            elif t and m in BR_OPS | {"j", "jal"} and t == toks[-1]:
                args.append(("@", t))
            elif "(" in t and t.endswith(")"):
                off, base = t[:-1].split("(")
                args.append(base.strip())
                args.append(int(off) if off.strip().lstrip("-").isdigit() else off.strip())
            else:
                args.append("?" + t)  # unknown operand text: makes the instruction unencodable
        prog.append((m, args))
    return prog


# ------------------------------------------------------------------------------------------------
# protocol text for the Lean model `riscv` (XdslModel/RiscV.lean)
# ------------------------------------------------------------------------------------------------

def regnum(r: str) -> int:
    if r in REGNUM:
        return REGNUM[r]
    if is_virtual(r):
        return 32 + int(r[1:])
    raise ValueError(f"not a register: {r!r}")


def fregnum(r: str) -> int:
    """F/D register number for the Lean float-rule protocol: physical 0..31, unallocated 32+n"""
    if r in FREGNUM:
        return FREGNUM[r]
    if is_virtual(r):
        return 32 + int(r[1:])
    raise ValueError(f"not a float register: {r!r}")


def flean_instr(ins: tuple[str, list[Any]]) -> str:
    m, a = ins
    return " ".join([m] + [str(x) if isinstance(x, int) else str(fregnum(x)) for x in a])


def lean_instr(ins: tuple[str, list[Any]], labels: dict[str, int] | None = None) -> str:
    m, a = ins
    if m == "label":
        return "nop"
    out = [m]
    for x in a:
        if isinstance(x, tuple):
            out.append(str((labels or {})[x[1]]))
        elif isinstance(x, int):
            out.append(str(x))
        else:
            out.append(str(regnum(x)))
    return " ".join(out)


def lean_prog(prog: list[tuple[str, list[Any]]]) -> str:
    labels = {a[0]: i for i, (m, a) in enumerate(prog) if m == "label"}
    return ";".join(lean_instr(i, labels) for i in prog)


def lean_regs(regs: dict[str, int]) -> str:
    return " ".join(f"{regnum(k)}={v & M32}" for k, v in regs.items() if k not in FREGNUM and regnum(k) != 0)
