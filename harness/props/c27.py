"""C27 — PDL patterns act the same interpreted or compiled to pdl_interp."""
from __future__ import annotations

import copy
import json
import os
import re
import tempfile
from typing import Any

from vp import core
from props import c27_gen as G
from props import c27_pdl as P

META = {
    "title": "PDL patterns act the same interpreted or compiled to pdl_interp",
    "category": "other",
    "explanation": (
        "partial by design (DESIGN.md §5 C27): Lean proofs (soundness, completeness, uniqueness of the denotation of a PDL "
        "pattern; rewrites leave no dangling uses) about the SPECIFICATION, plus differential exploration of the two real "
        "paths against each other and against that specification (Lean model run on every probed operation); the "
        "predicate-tree compiler itself is not modelled, so the equality of the two paths is explored, not proved"
    ),
    "design_ref": "DESIGN.md §5 C27",
    "lean_modules": ["XdslProofs.C27", "XdslProofs.C27Drive"],
    "text": "filled in below",
    "technique": "Lean 4 proofs about a specification-level PDL denotation and a model of the greedy driver + three-way "
                 "differential testing (interpreted path, compiled path, Lean specification; independent Python reference "
                 "as arbiter), single rewrites and whole passes",
    "level_note": "filled in below",
    "rule": "filled in below",
    "trusted_base": [
        "hand-written Lean specification XdslModel/PDL.lean (tied to both real paths by correspondence on every probed operation)",
        "independent Python reference matcher/rewriter/driver harness/props/c27_pdl.py (ref_match/ref_apply/ref_drive), the arbiter when the paths differ",
        "canonicalisation of payload blocks (c27_pdl.canon_block) and the MLIR text emitters for patterns and payloads",
    ],
    "assumptions": [
        "partial claim: the predicate-tree compiler and the pdl_interp interpreter are not modelled; equality of the two paths is tested, not proved",
        "the Lean model of PatternRewriteWalker (driveW) is tied to both real passes by correspondence on generated payloads only (flat blocks, default walker configuration, ops that are never trivially dead)",
    ],
    "budget": {"quick": 45, "thorough": 900},
}

SITE1 = "xdsl.interpreters.pdl.PDLMatcher"
SITE1R = "xdsl.interpreters.pdl.PDLRewriteFunctions"
SITE2 = "xdsl.transforms.convert_pdl_to_pdl_interp.conversion.ConvertPDLToPDLInterpPass"
SITE2I = "xdsl.interpreters.pdl_interp.PDLInterpFunctions"
SITE_BOTH = "xdsl.transforms.apply_pdl_interp.ApplyPDLInterpPass"
SITE_PASS = {"pdl": "xdsl.transforms.apply_pdl.ApplyPDLPass", "pdl_interp": "xdsl.transforms.apply_pdl_interp.ApplyPDLInterpPass"}
DRIVE_FUEL = 400
LEAN_PRE = 4        # reset, pat, ir, hdr


# ---------------------------------------------------------------------------------------------
# one case = (pattern, payload); observations of both real paths, op by op and with the walker
# ---------------------------------------------------------------------------------------------

def _is_raise(s: str) -> bool:
    return s.startswith("raise ") or s.startswith("invalid-ir")


def _cls(s: str) -> str:
    """outcome class used by the oracle: all exceptions are one class"""
    return "raise" if _is_raise(s) else s


def probe(path, base_module, i: int, locate, p: dict | None = None) -> tuple[str, str, Any]:
    """(match observation, rewrite observation, binding or None) of `path` at op position i of a fresh clone"""
    m = base_module.clone()
    block = locate(m)
    op = [o for o in block.ops if o.name != "test.termop"][i]
    binding = None
    try:
        ok, ctxmap = path.match(op)
        mobs = "match" if ok else "nomatch"
        if ok and ctxmap is not None and p is not None:
            try:
                binding = P.binding_from_context(path, ctxmap, block, p)
            except Exception:  # noqa: BLE001
                binding = None
    except Exception as e:  # noqa: BLE001
        mobs = P.exc_obs(e)
    try:
        did = path.rewrite_at(op)
        if not did:
            robs = "nomatch"
        else:
            try:
                m.verify()
                robs = "ok"
            except Exception as e:  # noqa: BLE001
                robs = "invalid-ir " + type(e).__name__
    except Exception as e:  # noqa: BLE001
        robs = P.exc_obs(e)
    after = None
    if robs == "ok":
        try:
            after = P.canon_block(locate(m))
            if any(r[0] == "dangling" for o in after["ops"] for r in o["operands"]):
                robs = "invalid-ir dangling"
        except Exception as e:  # noqa: BLE001
            robs = "invalid-ir " + type(e).__name__
    return mobs, robs, (binding, after)


def default_locate(module):
    first = module.body.block.first_op
    if first is not None and first.regions and first.regions[0].blocks:
        return first.regions[0].block
    return module.body.block


class Case:
    def __init__(self, p: dict | None, ptext: str, pl_text: str, origin: str):
        self.p = p                      # abstract pattern or None (outside the modelled fragment)
        self.ptext = ptext
        self.pl_text = pl_text
        self.origin = origin
        self.pl: dict | None = None     # abstract payload (canonical) when the block is flat
        self.n = 0
        self.setup: dict[str, str] = {}
        self.obs: dict[str, list[tuple[str, str]]] = {"pdl": [], "pdl_interp": []}
        self.after: dict[str, list[Any]] = {"pdl": [], "pdl_interp": []}
        self.bind1: list[Any] = []
        self.walk: dict[str, str] = {}
        self.walk_after: dict[str, Any] = {}     # canonical abstract payload behind each entry of `walk` (flat blocks)
        self.drive: Any = None                   # reference driver on the payload: abstract payload | "error" | "fuel" | None (not run)
        self.ref: list[tuple[str, Any, Any]] = []
        self.why: list[str] = []


def observe(case: Case, walker: bool = True, passes: bool = False) -> Case:
    pm = P.parse(case.ptext)
    pm.verify()
    base = P.parse(case.pl_text)
    base.verify()
    block = default_locate(base)
    flat = all(not o.regions for o in block.ops)
    case.pl = P.canon_block(block) if flat else None
    case.n = len([o for o in block.ops if o.name != "test.termop"]) if flat else 0
    paths = {}
    for name, cls in (("pdl", P.Path1), ("pdl_interp", P.Path2)):
        try:
            paths[name] = cls(pm)
            case.setup[name] = "ok"
        except Exception as e:  # noqa: BLE001
            case.setup[name] = P.exc_obs(e)
    for i in range(case.n):
        for name in ("pdl", "pdl_interp"):
            if name in paths:
                mobs, robs, (binding, after) = probe(paths[name], base, i, default_locate,
                                                     None if case.origin.startswith(("corpus", "regression", "replay")) else case.p)
            else:
                mobs, robs, binding, after = case.setup[name], case.setup[name], None, None
            case.obs[name].append((mobs, robs))
            case.after[name].append(after)
            if name == "pdl":
                case.bind1.append(binding)
    if case.p is not None and case.pl is not None:
        for i in range(case.n):
            b, why = P.ref_match_why(case.p, case.pl, i)
            case.why.append(why)
            if b is None:
                case.ref.append(("nomatch", None, None))
            else:
                try:
                    case.ref.append(("match", b, P.ref_apply(case.p, case.pl, b)))
                except P.RefError:
                    case.ref.append(("match", b, None))
    if walker:
        limit = 4 * max(case.n, 1) + 12
        for name in ("pdl", "pdl_interp"):
            if name in paths:
                case.walk[name] = P.run_walker(paths[name], base.clone(), limit)
            else:
                case.walk[name] = case.setup[name]
    if passes and not any(v == "raise StepLimit" for v in case.walk.values()):
        # apply-pdl (only) erases trivially dead ops while it walks: compared only on payloads/patterns without pure ops
        if not any(w in case.ptext + case.pl_text for w in ("pureop", "memread", "arith.")):
            case.walk.update(run_passes(case))
            case.drive = reference_drive(case)
    return case


def drivable(case: Case) -> bool:
    """the reference driver (and the Lean model `driveW`) speak about the payload block only: the pattern must not be
    able to match the module, the wrapper op or the terminator (ops without operands and results), and the rewrite
    must not create ops of real dialects (default properties, verifiers)"""
    if case.p is None or case.pl is None or not case.p["ops"]:
        return False
    root = case.p["ops"][-1]
    if not root["operands"] and not root["results"]:
        return False
    return not any(a[0] == "op" and not a[1].startswith("test.") and P.canon_opname(a[1]) != "builtin.unregistered"
                   for a in case.p["rw"])


def reference_drive(case: Case) -> Any:
    if not drivable(case):
        return None
    try:
        return P.ref_drive(case.p, case.pl, fuel=DRIVE_FUEL)
    except P.RefError:
        return "error"
    except P.DriveFuel:
        return "fuel"


class PassTimeout(Exception):
    pass


class time_limit:
    """SIGALRM-based guard that preserves the runner's own pending alarm"""

    def __init__(self, seconds: int):
        self.seconds = seconds

    def __enter__(self):
        import signal
        import time

        def handler(signum, frame):
            raise PassTimeout()
        self.t0 = time.time()
        self.old_handler = signal.signal(signal.SIGALRM, handler)
        self.remaining = signal.alarm(self.seconds)

    def __exit__(self, *exc):
        import signal
        import time
        signal.alarm(0)
        signal.signal(signal.SIGALRM, self.old_handler)
        if self.remaining:
            signal.alarm(max(1, self.remaining - int(time.time() - self.t0)))
        return False


def _canon_or_none(module) -> dict | None:
    try:
        block = default_locate(module)
        if any(o.regions for o in block.ops):
            return None
        return P.canon_block(block)
    except Exception:  # noqa: BLE001
        return None


def run_passes(case: Case) -> dict[str, str]:
    """the passes exactly as xdsl-opt runs them: apply-pdl{pdl_file=…} versus convert-pdl-to-pdl-interp on the pattern
    file followed by apply-pdl-interp{pdl_interp_file=…}.  Only used when the walker runs terminated."""
    from xdsl.transforms.apply_pdl import ApplyPDLPass
    from xdsl.transforms.apply_pdl_interp import ApplyPDLInterpPass
    from xdsl.transforms.convert_pdl_to_pdl_interp.conversion import ConvertPDLToPDLInterpPass
    out = {}
    ctx = P.get_ctx()
    with tempfile.TemporaryDirectory() as d:
        f1 = os.path.join(d, "p.mlir")
        open(f1, "w").write(case.ptext)
        m1 = P.parse(case.pl_text)
        try:
            with time_limit(10):
                ApplyPDLPass(pdl_file=f1).apply(ctx, m1)
            m1.verify()
            out["pass:pdl"] = P.module_text(m1)
            case.walk_after["pass:pdl"] = _canon_or_none(m1)
        except Exception as e:  # noqa: BLE001
            out["pass:pdl"] = P.exc_obs(e)
        try:
            pm = P.parse(case.ptext)
            ConvertPDLToPDLInterpPass().apply(ctx, pm)
            pm.verify()
            f2 = os.path.join(d, "i.mlir")
            open(f2, "w").write(str(pm))
            m2 = P.parse(case.pl_text)
            with time_limit(10):
                ApplyPDLInterpPass(pdl_interp_file=f2).apply(ctx, m2)
            m2.verify()
            out["pass:pdl_interp"] = P.module_text(m2)
            case.walk_after["pass:pdl_interp"] = _canon_or_none(m2)
        except Exception as e:  # noqa: BLE001
            out["pass:pdl_interp"] = P.exc_obs(e)
    return out


# ---------------------------------------------------------------------------------------------
# oracle
# ---------------------------------------------------------------------------------------------

def ref_obs(case: Case, i: int) -> tuple[str, str] | None:
    if not case.ref:
        return None
    m, _, after = case.ref[i]
    if m == "nomatch":
        return ("nomatch", "nomatch")
    return ("match", "raise" if after is None else P.canon_line(after))


def path_obs(case: Case, name: str, i: int) -> tuple[str, str]:
    mobs, robs = case.obs[name][i]
    if robs == "ok":
        robs = P.canon_line(case.after[name][i])
    return (_cls(mobs), _cls(robs))


def ill_formed(case: Case, i: int) -> bool:
    """the pattern matches at op i but its rewrite has no defined result there (wrong number of replacement values,
    erasing an op that is still used, use of an erased value): outside the property's quantifier"""
    return bool(case.ref) and case.ref[i][0] == "match" and case.ref[i][2] is None


def differences(case: Case) -> list[dict]:
    """every way in which the two paths differ on this case"""
    out = []
    any_ill = False
    unsupported = False
    for i in range(case.n):
        a, b = path_obs(case, "pdl", i), path_obs(case, "pdl_interp", i)
        if ill_formed(case, i):
            any_ill = True
            a, b = (a[0], "ill-formed"), (b[0], "ill-formed")
        if case.p is None and ("raise" in a or "raise" in b):
            # corpus pattern outside the fragment (ranges, native constraints/rewrites, several roots): the interpreters
            # do not implement all of it; an exception on either side is counted as unsupported, not as a difference
            unsupported = True
            continue
        if a != b:
            out.append({"where": "op", "op": i, "pdl": case.obs["pdl"][i], "pdl_interp": case.obs["pdl_interp"][i],
                        "pdl_c": a, "pdl_interp_c": b, "ref": ref_obs(case, i), "why": case.why[i] if case.why else ""})
    if out or any_ill or unsupported:
        return out          # greedy application cannot agree when a probe differs / is meaningless on ill-formed rewrites
    if case.drive == "error":
        return out          # the greedy walk itself arrives at an ill-formed rewrite (on a payload it produced)
    for pre in ("", "pass:"):
        if pre + "pdl" in case.walk:
            a, b = _cls(case.walk[pre + "pdl"]), _cls(case.walk[pre + "pdl_interp"])
            if a != b:
                out.append({"where": pre + "walker", "pdl": case.walk[pre + "pdl"], "pdl_interp": case.walk[pre + "pdl_interp"]})
    return out


def outside_constructs(ptext: str) -> list[str]:
    """why a corpus pattern is outside the reference fragment"""
    from xdsl.dialects import pdl
    tags = set()
    try:
        for o in P.parse(ptext).walk():
            if isinstance(o, pdl.TypesOp | pdl.OperandsOp | pdl.ResultsOp | pdl.RangeOp):
                tags.add("ranges")
            elif isinstance(o, pdl.ApplyNativeConstraintOp | pdl.ApplyNativeRewriteOp):
                tags.add("native")
            elif isinstance(o, pdl.RewriteOp) and o.name_ is not None:
                tags.add("native")
    except Exception:  # noqa: BLE001
        tags.add("unparsable")
    return sorted(tags) or ["several-roots-or-other"]


def classify(case: Case, d: dict) -> tuple[str, str, str]:
    """(call_site, signature, description) of a difference; the reference decides which side is wrong"""
    if d["where"] != "op":
        kind = "the passes apply-pdl / apply-pdl-interp" if d["where"].startswith("pass:") else "greedy application (PatternRewriteWalker)"
        if d["where"].startswith("pass:"):
            # arbiters: the reference driver (specification of one rewrite + PatternRewriteWalker's default walk) and the
            # same pattern object driven by a default PatternRewriteWalker in the harness
            verdict = {}
            for name in ("pdl", "pdl_interp"):
                after = case.walk_after.get("pass:" + name)
                got = P.canon_line(after) if after is not None else _cls(case.walk.get("pass:" + name, ""))
                if isinstance(case.drive, dict):
                    verdict[name] = got == P.canon_line(case.drive)
                elif name in case.walk:
                    verdict[name] = _cls(case.walk["pass:" + name]) == _cls(case.walk[name])
            wrong = [n for n, ok in verdict.items() if not ok]
            if len(verdict) == 2 and len(wrong) == 1:
                n = wrong[0]
                pname = "apply-pdl" if n == "pdl" else "apply-pdl-interp"
                return (SITE_PASS[n], f"the pass {pname} does not drive the pattern like a default PatternRewriteWalker "
                                      "(program order, worklist, to a fixpoint); the other pass does",
                        f"{pname} ends with another payload than greedy application of the same pattern in program order; "
                        "every single-operation probe agrees on the two paths, the other pass agrees with the reference driver")
        return (SITE_BOTH, kind + " differs although every single-operation probe agrees",
                kind + " gives different payloads on the two paths")
    ref = d["ref"]
    a, b = d["pdl_c"], d["pdl_interp_c"]
    raw1, raw2 = d["pdl"], d["pdl_interp"]
    if ref is not None and a[1] == "ill-formed":
        ref = (ref[0], "ill-formed")

    def describe(side: tuple[str, str], raw: tuple[str, str]) -> str:
        if ref is None:
            return f"{side[0]}/{side[1][:12]}"
        if side[0] == "raise":
            return f"matching raises {raw[0].split()[-1]} where the pattern " + \
                   ("matches" if ref[0] == "match" else "does not match")
        if side[0] != ref[0]:
            return ("matches although: " + d["why"]) if side[0] == "match" else "rejects an operation that instantiates the pattern"
        if side[1] == "raise":
            return f"rewrite raises {raw[1].split()[-1]} where the rewrite is well defined"
        return "rewrite result differs from the specification"

    if ref is None:
        tags = outside_constructs(case.ptext)
        if "ranges" in tags:
            return (SITE1, "pattern with range constructs (pdl.types / pdl.operands / pdl.results / pdl.range): the paths differ",
                    "interpreters/pdl.py treats a range node like a single type/operand; the compiled path implements ranges; no reference opinion")
        return (SITE2, "paths differ on a pattern outside the reference fragment (" + ",".join(tags) + "): pdl=" + describe(a, raw1) + " pdl_interp=" + describe(b, raw2),
                "the two paths differ; no reference opinion")
    wrong1, wrong2 = a != ref, b != ref
    if wrong2 and not wrong1:
        desc = describe(b, raw2)
        site = SITE2I if "raises" in desc else SITE2
        return (site, desc, "compiled path (convert-pdl-to-pdl-interp + pdl_interp interpreter): " + desc)
    if wrong1 and not wrong2:
        desc = describe(a, raw1)
        site = SITE1R if desc.startswith("rewrite") else SITE1
        return (site, desc, "interpreted path (interpreters/pdl.py): " + desc)
    return (SITE_BOTH, "both paths differ from the reference and from each other: " + describe(a, raw1) + " / " + describe(b, raw2),
            "both paths deviate from the specification in different ways")


# ---------------------------------------------------------------------------------------------
# Lean correspondence
# ---------------------------------------------------------------------------------------------

def lean_lines(case: Case) -> tuple[list[str], P.Interner]:
    assert case.p is not None and case.pl is not None
    I = P.Interner(case.p, case.pl)
    h = P.hdr_of(case.p)
    # header of the pdl.pattern op: carried by the model's PatternOp, which no function of the specification reads
    # (header_irrelevant); the real paths ran under this header and are compared with the header-blind denotation
    lines = ["reset", P.encode_pattern(case.p, I), P.encode_ir(case.pl, I),
             f"hdr {h['benefit']} {0 if h['sym'] is None else 1 + sum(h['sym'].encode()) % 1000}"]
    for i in range(case.n):
        lines += [f"match {i}", f"apply {i}"]
    if case.drive is not None:
        lines.append(f"drive {DRIVE_FUEL}")
    return lines, I


def expected_lean(case: Case, I: P.Interner, i: int, who: str) -> tuple[str, str] | None:
    """what the Lean model should print for op i according to `who` ∈ {ref, pdl, pdl_interp}; None = no opinion"""
    if who == "ref":
        m, b, after = case.ref[i]
        if m == "nomatch":
            return ("nomatch", "nomatch")
        return (P.lean_binding_line(b, I), "error" if after is None else P.lean_ir_line(after, I))
    mobs, robs = case.obs[who][i]
    if _is_raise(mobs):
        return None
    if mobs == "nomatch":
        return ("nomatch", "nomatch")
    b = case.bind1[i] if who == "pdl" else None
    ml = P.lean_binding_line(b, I) if b is not None else "match *"
    if robs.startswith("invalid-ir") and "dangling" not in robs:
        return (ml, "*")           # a dialect verifier rejected the rewritten payload: no opinion about the rewrite
    if _is_raise(robs):
        return (ml, "error")
    after = case.after[who][i]
    try:
        return (ml, P.lean_ir_line(after, I))
    except KeyError:
        return None


# ---------------------------------------------------------------------------------------------
# corpus
# ---------------------------------------------------------------------------------------------

def corpus_patterns() -> list[tuple[str, str, str | None]]:
    """(origin, single-pattern module text, payload text or None) for every pdl.pattern in the repo's tests and docs"""
    import glob
    repo = os.environ.get("XDSL_REPO", "/repo")
    files = sorted(set(glob.glob(repo + "/tests/filecheck/**/*.mlir", recursive=True) +
                       glob.glob(repo + "/docs/**/*.py", recursive=True) + glob.glob(repo + "/docs/**/*.md", recursive=True) +
                       glob.glob(repo + "/tests/**/*pdl*.py", recursive=True)))
    out = []
    seen = set()
    for f in files:
        try:
            src = open(f).read()
        except Exception:  # noqa: BLE001
            continue
        if "pdl.pattern" not in src:
            continue
        rel = os.path.relpath(f, repo)
        for chunk_no, chunk in enumerate(re.split(r"^// -----.*$", src, flags=re.M)):
            for m in re.finditer(r"pdl\.pattern\b", chunk):
                j = chunk.find("{", m.end())
                if j < 0 or "\n" in chunk[m.end():j] and ":" not in chunk[m.end():j]:
                    continue
                depth, k = 0, j
                while k < len(chunk):
                    if chunk[k] == "{":
                        depth += 1
                    elif chunk[k] == "}":
                        depth -= 1
                        if depth == 0:
                            break
                    k += 1
                if depth != 0:
                    continue
                body = chunk[m.start():k + 1]
                body = "\n".join(l for l in body.split("\n") if not l.lstrip().startswith("// CHECK"))
                text = "builtin.module {\n" + body + "\n}\n"
                if text in seen:
                    continue
                seen.add(text)
                # the file's own payload: everything before the first pdl.pattern that is not a comment
                payload = None
                if "apply-pdl" in rel or "apply_pdl" in rel:
                    head = chunk[:chunk.find("pdl.pattern")]
                    head = "\n".join(l for l in head.split("\n") if not l.lstrip().startswith("//"))
                    if head.strip():
                        payload = "builtin.module {\n" + head + "\n}\n"
                out.append((f"{rel}#{chunk_no}", text, payload))
    return out


def registered_ok(name: str) -> bool:
    return P.get_ctx().get_optional_op(name) is not None


# ---------------------------------------------------------------------------------------------
# run
# ---------------------------------------------------------------------------------------------

def case_json(case: Case) -> dict:
    return {"pattern": case.p, "pattern_text": case.ptext, "payload": case.pl, "payload_text": case.pl_text, "origin": case.origin}


def still_differs(p: dict | None, ptext: str, pl: dict, sig: tuple[str, str], op: int | None) -> bool:
    if not G.payload_well_formed(pl):
        return False
    try:
        c = Case(p, P.pattern_text(p) if p is not None else ptext, P.payload_text(pl), "shrink")
        observe(c, walker=op is None, passes=op is None)
    except Exception:  # noqa: BLE001
        return False
    for d in differences(c):
        if op is not None and (d["where"] != "op" or d["op"] != op):
            continue
        if classify(c, d)[:2] == sig:
            return True
    return False


def report(ctx: core.Ctx, case: Case, d: dict) -> None:
    site, sig, desc = classify(case, d)
    p, pl = case.p, case.pl
    op = d.get("op")
    if pl is not None and not case.origin.startswith("regression"):      # regression inputs are minimal already
        try:
            # (differences of greedy application need the walkers and the passes for every candidate: smaller budgets)
            b1, b2 = (200, 120) if op is not None else (60, 40)
            pl, op = G.shrink_payload(pl, lambda c, k: still_differs(p, case.ptext, c, (site, sig), k), op, b1)
            if p is not None:
                p = G.shrink_pattern(p, lambda q: still_differs(q, "", pl, (site, sig), op), b2)
                pl, op = G.shrink_payload(pl, lambda c, k: still_differs(p, case.ptext, c, (site, sig), k), op, b1)
        except Exception:  # noqa: BLE001
            p, pl, op = case.p, case.pl, d.get("op")
    small = Case(p, P.pattern_text(p) if p is not None else case.ptext, P.payload_text(pl) if pl is not None else case.pl_text, case.origin)
    try:
        observe(small, passes=d["where"].startswith("pass:"))
    except Exception:  # noqa: BLE001
        small = case
    dd = next((x for x in differences(small) if classify(small, x)[:2] == (site, sig)), d)
    body = case_json(small)
    body["probe_op"] = dd.get("op")
    expected: dict = {"reference": dd.get("ref")}
    if dd["where"] != "op" and small.drive is not None:
        expected = {"reference_driver": P.canon_line(small.drive) if isinstance(small.drive, dict) else small.drive}
    if small.p is not None and P.hdr_of(small.p) != P.HDR_DEFAULT and small is not case:
        # (the shrinker tries the default header first: a header that survived is needed for the difference)
        try:
            q = {k: v for k, v in small.p.items() if k != "hdr"}
            if not still_differs(q, "", small.pl, (site, sig), dd.get("op")):
                desc += f"; only under the header `{P.header_text(P.hdr_of(small.p))}` — with `pdl.pattern : benefit(1)` the same " \
                        "pattern and payload show no such difference, although the header is not part of what a single pattern denotes"
        except Exception:  # noqa: BLE001
            pass
    ctx.fail(site, sig, body, desc,
             {"pdl": dd.get("pdl"), "pdl_interp": dd.get("pdl_interp")}, expected)


def check_case(ctx: core.Ctx, case: Case, lean_batch: list, passes: bool = False) -> None:
    try:
        observe(case, passes=passes)
    except Exception as e:  # noqa: BLE001
        ctx.count("case.invalid-input:" + type(e).__name__)
        return
    ctx.ev()
    ctx.count("origin." + case.origin.split(":")[0])
    matched = 0
    for i in range(case.n):
        a, b = path_obs(case, "pdl", i), path_obs(case, "pdl_interp", i)
        if a[0] == "match" or b[0] == "match":
            matched += 1
        ctx.count("probe." + ("both-raise" if a[0] == "raise" and b[0] == "raise" else
                              "match" if a[0] == "match" else "nomatch"))
        if a[1] == "raise" and b[1] == "raise" and a[0] == "match":
            ctx.count("probe.rewrite-both-raise")
    ctx.count("probes", case.n)
    if case.p is not None:
        h = P.hdr_of(case.p)
        if h != P.HDR_DEFAULT:
            ctx.count("hdr.non-default")
            ctx.count("hdr.benefit=" + (str(h["benefit"]) if h["benefit"] in (0, 1, 32767, 65535) else "other"))
            ctx.count("hdr.sym=" + (h["sym"] if h["sym"] in ("matcher", "rewriters", "pdl_generated_rewriter") else "none" if h["sym"] is None else "other"))
            if matched:
                ctx.count("hdr.non-default-and-matches")
                if h["benefit"] == 0:
                    ctx.count("hdr.benefit=0-and-matches")
                if h["sym"] == "matcher":
                    ctx.count("hdr.sym=matcher-and-matches")
    if case.pl is not None and any({n for n, _ in o["attrs"]} & {n for n, _ in o["props"]} for o in case.pl["ops"]):
        ctx.count("case.attr-and-prop-same-name")
    if case.walk.get("pdl") == "raise StepLimit":
        ctx.count("walker.step-limit")
    if matched >= 2:
        ctx.count("case.match-sites>=2")
    if "pass:pdl" in case.walk:
        ctx.count("passes.compared")
    if isinstance(case.drive, dict):
        try:
            if P.ref_drive(case.p, case.pl, reverse=True, fuel=DRIVE_FUEL) != case.drive:
                ctx.count("drive.walk-order-observable")       # (a reverse walk would end elsewhere: the case can tell drivers apart)
        except (P.RefError, P.DriveFuel):
            ctx.count("drive.walk-order-observable")
    diffs = differences(case)
    seen = set()
    for d in diffs:
        key = classify(case, d)[:2]
        if key in seen:
            continue
        seen.add(key)
        ctx.count("difference." + key[1][:60])
        done = ctx.extra.setdefault("_reported", set())
        if key not in done:          # shrink and report the first occurrence of each (call site, signature) only
            done.add(key)
            report(ctx, case, d)
    if matched and case.n > matched and len(ctx.samples) < 4 and case.p is not None and case.n <= 6:
        ctx.sample({"pattern": case.ptext, "payload": case.pl_text,
                    "per_op": [{"pdl": list(case.obs["pdl"][i]), "pdl_interp": list(case.obs["pdl_interp"][i]),
                                "reference": list(ref_obs(case, i) or [])} for i in range(case.n)],
                    "greedy": {k: v[:400] for k, v in case.walk.items()}})
    if matched and case.n > matched:
        ctx.nt(json.dumps([case.p or case.ptext, case.pl or case.pl_text], sort_keys=True))
    if case.p is not None and case.pl is not None and case.ref:
        lean_batch.append(case)


def run_lean(ctx: core.Ctx, batch: list[Case]) -> None:
    if not batch:
        return
    lines: list[str] = []
    meta = []
    for c in batch:
        try:
            l, I = lean_lines(c)
        except Exception:  # noqa: BLE001
            ctx.count("lean.not-encodable")
            continue
        meta.append((c, I, len(lines)))
        lines += l
    out = ctx.model("pdl", lines)
    for c, I, at in meta:
        if out[at + LEAN_PRE - 1] != "ok":
            raise core.InfraError("Lean model `pdl` refused the header line: " + out[at + LEAN_PRE - 1])
        got = out[at + LEAN_PRE: at + LEAN_PRE + 2 * c.n]
        # ops of real dialects get default properties / are checked by their verifiers when the rewrite creates them:
        # outside the specification, so only the match is compared there (the two paths are still compared in full)
        foreign = any(a[0] == "op" and not a[1].startswith("test.") and P.canon_opname(a[1]) != "builtin.unregistered"
                      for a in c.p["rw"])
        if foreign:
            ctx.count("lean.rewrite-creates-foreign-dialect-op")
        for i in range(c.n):
            gm, ga = got[2 * i], got[2 * i + 1]
            ctx.count("lean.probes")
            exp = expected_lean(c, I, i, "ref")
            if (gm, ga) != exp:
                ctx.mismatch("correspondence:C27/pdl-vs-python-reference", {**case_json(c), "probe_op": i},
                             {"reference": exp}, {"lean": [gm, ga]},
                             "Lean specification and Python reference matcher disagree")
            # both real paths against the Lean specification (only where the paths agree with each other:
            # a disagreement between them is already a failing input of the property)
            if path_obs(c, "pdl", i) != path_obs(c, "pdl_interp", i):
                continue
            for who in ("pdl", "pdl_interp"):
                e = expected_lean(c, I, i, who)
                if e is None:
                    ctx.count("lean.real-raises")
                    continue
                em, ea = e
                okm = (em == gm) or (em == "match *" and gm.startswith("match "))
                # rewrites the specification refuses (ill-formed at run time: use of an erased value, wrong number of
                # replacement values, erasing a used op) are outside the quantifier: xDSL may raise or do anything there
                oka = ea == "*" or ill_formed(c, i) or foreign or ea == ga.replace(" !dangling", "")
                if not (okm and oka):
                    ctx.mismatch(f"correspondence:C27/pdl-vs-{who}", {**case_json(c), "probe_op": i},
                                 {who: [em, ea]}, {"lean": [gm, ga]},
                                 f"both real paths agree with each other but differ from the Lean specification at payload op {i}")
            if " !dangling" in ga:
                ctx.mismatch("correspondence:C27/apply_wf", {**case_json(c), "probe_op": i}, None, {"lean": ga},
                             "Lean apply produced a dangling use (contradicts apply_wf)")
        if c.drive is not None:
            check_drive(ctx, c, I, out[at + LEAN_PRE + 2 * c.n])


def check_drive(ctx: core.Ctx, c: Case, I: P.Interner, lean: str) -> None:
    """greedy application: the Lean model of PatternRewriteWalker (`driveW`, XdslModel/PDL.lean) against the Python
    reference driver and against BOTH real passes (where the passes agree with each other: a difference between them
    is a failing input of the property already and was reported with the driver as arbiter)"""
    ctx.count("drive.cases")
    try:
        ref = c.drive if isinstance(c.drive, str) else "done " + P.lean_ir_line(c.drive, I)
    except KeyError:
        ctx.count("drive.not-encodable")
        return
    if lean.replace(" !dangling", "") != ref:
        ctx.mismatch("correspondence:C27/drive-vs-python-reference", case_json(c), {"reference": ref}, {"lean": lean},
                     "Lean model of the walker (driveW) and the Python reference driver disagree")
        return
    if " !dangling" in lean:
        ctx.mismatch("correspondence:C27/drive_closed", case_json(c), None, {"lean": lean},
                     "Lean driveW produced a dangling use (contradicts drive_closed)")
    if not lean.startswith("done "):
        ctx.count("drive." + ("ill-formed-during-walk" if lean == "error" else "fuel"))
        return                                   # outside the quantifier / not terminating within the fuel
    if any(ill_formed(c, i) for i in range(c.n)):
        ctx.count("drive.ill-formed-site")
        return
    obs = {}
    for name in ("pdl", "pdl_interp"):
        after = c.walk_after.get("pass:" + name)
        try:
            obs[name] = "done " + P.lean_ir_line(after, I) if after is not None else _cls(c.walk.get("pass:" + name, ""))
        except KeyError:
            ctx.count("drive.not-encodable")
            return
    if obs["pdl"] != obs["pdl_interp"]:
        return
    ctx.count("drive.compared-with-both-passes")
    if c.drive != c.pl:
        ctx.count("drive.payload-changed")
    if obs["pdl"] != lean:
        ctx.mismatch("correspondence:C27/drive-vs-passes", case_json(c), {"apply-pdl": obs["pdl"], "apply-pdl-interp": obs["pdl_interp"]},
                     {"lean": lean}, "both passes end with the same payload, but not with the one the Lean model of "
                     "PatternRewriteWalker (program order, worklist, use lists) computes")


def generated_cases(ctx: core.Ctx, n: int, rich: bool = True, effect_only: bool = False):
    rng = ctx.rng
    for k in range(n):
        if rng.random() < 0.2:
            p = G.gen_diamond_pattern(rng, rich, effect_only)
            ctx.count("gen.diamond-pattern")
        else:
            p = G.gen_pattern(rng, rich, effect_only)
        for _ in range(2 if rng.random() < 0.5 else 1):
            pl, muts = G.gen_payload(rng, p, effect_only)
            if not G.payload_well_formed(pl):
                ctx.count("gen.payload-ill-formed")
                continue
            for m in muts:
                ctx.count("mutation." + m)
            yield Case(p, P.pattern_text(p), P.payload_text(pl), "generated")


def chain_cases(ctx: core.Ctx, n: int):
    """self-overlapping patterns on def-use chains: several overlapping match sites, order of application observable"""
    rng = ctx.rng
    for _ in range(n):
        p = G.gen_chain_pattern(rng)
        pl, muts = G.gen_chain_payload(rng, p)
        if not G.payload_well_formed(pl):
            ctx.count("gen.payload-ill-formed")
            continue
        ctx.count("gen.chain-pattern")
        for m in muts:
            ctx.count("mutation." + m)
        yield Case(p, P.pattern_text(p), P.payload_text(pl), "generated:chain")


def corpus_cases(ctx: core.Ctx, per_pattern: int):
    from xdsl.dialects import pdl
    rng = ctx.rng
    for origin, text, payload in corpus_patterns():
        try:
            pm = P.parse(text)
            pm.verify()
        except Exception as e:  # noqa: BLE001
            ctx.count("corpus.unparsable")
            continue
        pats = [o for o in pm.walk() if isinstance(o, pdl.PatternOp)]
        if len(pats) != 1:
            continue
        p = P.extract_pattern(pats[0])
        ctx.count("corpus.patterns")
        ctx.count("corpus.in-fragment" if p is not None else "corpus.outside-fragment")
        # the same pattern under another header (benefit / symbol name): one extra case per corpus pattern
        h = G.gen_header(rng)
        while h == P.HDR_DEFAULT or (p is not None and h == P.hdr_of(p)):
            h = G.gen_header(rng)
        htext = P.with_header(text, h)
        hp = {**p, "hdr": h} if p is not None else None
        if payload is not None:
            yield Case(p, text, payload, "corpus:" + origin)
            yield Case(hp, htext, payload, "corpus:" + origin + ":header")
        if p is None:
            for _ in range(per_pattern):
                try:
                    pl = P.skeleton_payload(pats[0], rng)
                    if pl is None or not G.payload_well_formed(pl):
                        continue
                    m = P.parse(P.payload_text(pl))
                    m.verify()
                except Exception:  # noqa: BLE001
                    ctx.count("corpus.payload-rejected")
                    continue
                yield Case(None, text, P.payload_text(pl), "corpus:" + origin)
                if _ == 0:
                    yield Case(None, htext, P.payload_text(pl), "corpus:" + origin + ":header")
            continue
        made = 0
        for _ in range(per_pattern * 6):
            if made >= per_pattern:
                break
            pl, _ = G.gen_payload(rng, p)
            if not G.payload_well_formed(pl):
                continue
            try:
                m = P.parse(P.payload_text(pl))
                m.verify()
            except Exception:  # noqa: BLE001
                ctx.count("corpus.payload-rejected")
                continue
            made += 1
            yield Case(p, text, P.payload_text(pl), "corpus:" + origin)
            if made == 1:
                yield Case(hp, htext, P.payload_text(pl), "corpus:" + origin + ":header")


def selftest(ctx: core.Ctx, n: int) -> None:
    """the emitters and the extractor agree: extract(parse(text(p))) = p; canon(parse(text(pl))) = pl"""
    from xdsl.dialects import pdl
    rng = ctx.rng
    for k in range(n):
        p = G.gen_diamond_pattern(rng) if k % 4 == 3 else G.gen_pattern(rng)
        pm = P.parse(P.pattern_text(p))
        pat = [o for o in pm.walk() if isinstance(o, pdl.PatternOp)][0]
        q = P.extract_pattern(pat)
        if q is None or P.hdr_of(q) != P.hdr_of(p) or not _same_pattern(p, q):
            raise core.InfraError("pattern emitter/extractor self-test failed: " + json.dumps(p))
        pl, _ = G.gen_payload(rng, p)
        if G.payload_well_formed(pl):
            m = P.parse(P.payload_text(pl))
            back = P.canon_block(default_locate(m))
            want = {"args": pl["args"], "ops": [{"name": o["name"] if not o["name"].startswith("unreg.") else "builtin.unregistered", "operands": o["operands"],
                                                "attrs": sorted([n, P.norm(t)] for n, t in o["attrs"]),
                                                "props": sorted([n, P.norm(t)] for n, t in o["props"]),
                                                "results": o["results"]} for o in pl["ops"]]}
            if back != want:
                raise core.InfraError("payload emitter/canonicaliser self-test failed: " + json.dumps(pl))
        ctx.count("selftest.roundtrips")


def _same_pattern(p: dict, q: dict) -> bool:
    """extraction numbers nodes in declaration order; compare up to that renumbering by re-emitting"""
    a = P.pattern_text({**p, "layout": "grouped", "mres": "rewrite"})
    try:
        b = P.pattern_text({**q, "layout": "grouped", "mres": "rewrite"})
    except Exception:  # noqa: BLE001
        return False
    if p.get("layout", "grouped") == "grouped":
        return P.normalise_pattern(p) == {**P.normalise_pattern(q),
                                          "attrs": [{"v": d["v"] if d["v"] is None else d["v"], "t": d["t"]} for d in q["attrs"]]} \
            or _texts_equivalent(a, b)
    return True


def _texts_equivalent(a: str, b: str) -> bool:
    try:
        return P.parse(a).is_structurally_equivalent(P.parse(b))
    except Exception:  # noqa: BLE001
        return False


FIXED_CASES: list[dict] = []      # minimal failing inputs of repaired defects (kept so that a regression is re-found)


def fixed_cases():
    path = os.path.join(os.path.dirname(__file__), "..", "corpus", "C27")
    if os.path.isdir(path):
        for f in sorted(os.listdir(path)):
            if f.endswith(".json"):
                body = json.load(open(os.path.join(path, f)))
                c = body.get("case", body)
                yield Case(c.get("pattern"), c["pattern_text"], c["payload_text"], "regression:" + f)


def run(ctx: core.Ctx) -> None:
    import time
    ctx.lean()
    quick = ctx.tier == "quick"
    t0 = time.time()
    # the budget is counted from here: building and auditing the Lean side takes 5 s on an idle machine, minutes under load
    avail = ctx.budget_s * (0.85 if quick else 1.0)
    selftest(ctx, 30 if quick else 300)
    batch: list[Case] = []
    for c in fixed_cases():
        check_case(ctx, c, batch, passes=True)
    ctx.extra["phase_s"] = {"lean+audit": round(t0 - ctx.t0, 1), "regression": round(time.time() - t0, 1)}
    # a fixed number of chain cases (overlapping match sites, both real passes, reference driver), whatever the load
    # of the machine does to the time-bounded phases below
    t1 = time.time()
    for c in chain_cases(ctx, 32 if quick else 400):
        check_case(ctx, c, batch, passes=True)
    ctx.extra["phase_s"]["chains"] = round(time.time() - t1, 1)
    t1 = time.time()
    for c in corpus_cases(ctx, 4 if quick else 25):
        check_case(ctx, c, batch, passes=c.origin.startswith("corpus") and "apply" in c.origin)
        if time.time() - t1 > avail * (0.45 if quick else 0.2):
            ctx.count("corpus.cut-by-budget")
            break
    ctx.extra["phase_s"]["corpus"] = round(time.time() - t1, 1)
    t2 = time.time()
    while time.time() - t0 < avail * 0.88:
        for c in generated_cases(ctx, 8):
            check_case(ctx, c, batch)
        for c in generated_cases(ctx, 2, effect_only=True):
            check_case(ctx, c, batch, passes=True)
        for c in chain_cases(ctx, 4):
            check_case(ctx, c, batch, passes=True)
        if len(batch) >= 400:
            run_lean(ctx, batch)
            batch = []
    ctx.extra["phase_s"]["generated"] = round(time.time() - t2, 1)
    run_lean(ctx, batch)
    ctx.extra.pop("_reported", None)


def replay(ctx: core.Ctx, body: dict) -> int:
    c = body["case"]
    case = Case(c.get("pattern"), c["pattern_text"], c["payload_text"], "replay")
    observe(case, passes=True)
    print("pattern:\n" + case.ptext)
    print("payload:\n" + case.pl_text)
    for i in range(case.n):
        print(f"op {i}: pdl={case.obs['pdl'][i]} pdl_interp={case.obs['pdl_interp'][i]} reference={ref_obs(case, i)}")
        if case.obs["pdl"][i][1] == "ok" or case.obs["pdl_interp"][i][1] == "ok":
            for name in ("pdl", "pdl_interp"):
                if case.after[name][i] is not None:
                    print(f"      {name:10s} after: {P.canon_line(case.after[name][i])}")
    for k, v in case.walk.items():
        print(f"--- {k}:\n{v}")
    if case.drive is not None:
        print("--- reference driver (program order):", P.canon_line(case.drive) if isinstance(case.drive, dict) else case.drive)
        for name in ("pdl", "pdl_interp"):
            a = case.walk_after.get("pass:" + name)
            if a is not None:
                print(f"    pass {name:10s}               : {P.canon_line(a)}")
    if case.p is not None and case.pl is not None and case.ref:
        lines, I = lean_lines(case)
        out = ctx.model("pdl", lines)
        for i in range(case.n):
            print(f"lean op {i}: {out[LEAN_PRE + 2 * i]} | {out[LEAN_PRE + 1 + 2 * i]}   (reference: {expected_lean(case, I, i, 'ref')})")
        if case.drive is not None:
            print(f"lean driveW: {out[LEAN_PRE + 2 * case.n]}")
    ds = differences(case)
    for d in ds:
        print("DIFFERENCE:", classify(case, d)[:2], {k: v for k, v in d.items() if k in ("where", "op")})
    return 1 if ds else 0


META["text"] = (
    "PARTIAL claim. Lean (XdslModel/PDL.lean): a specification-level denotation of the single-root PDL fragment — pdl.type / "
    "pdl.attribute / pdl.operand / pdl.operation whose operands are pdl.operands or pdl.results of earlier operations (a DAG "
    "with shared nodes); matchRoot : Pattern → IR → OpId → Option Binding threads a binding like PDLMatcher.match_operation; "
    "applyRw executes the rewrite section (create before the root, replace with values / with an operation, erase; on root, "
    "non-root and created ops) with the run-time checks of PatternRewriter (number of replacement values, no remaining uses) "
    "and a local availability check of every used value. Theorems (XdslProofs/C27.lean), for every pattern, payload, "
    "candidate root and rewrite: match_sound (a returned binding satisfies every constraint of every bound node — Holds — and "
    "binds the root to the candidate); match_complete (for every DAG pattern whose pdl.result operands refer to earlier ops: if "
    "ANY binding instantiates the pattern at o, matchRoot succeeds with a sub-binding of it); match_iff (the matcher decides "
    "instantiability); instantiation_unique (all instantiating bindings agree with the matcher's binding, so the entities a "
    "rewrite sees do not depend on the matching order); apply_wf / rewriteAt_wf (no dangling uses after any rewrite section, "
    "for any binding); rewriteAt_nomatch; known_untyped_attribute_counterexample / _no_instance (witness of the known finding). "
    "The two real paths are NOT modelled. Per run, every operation of every payload is probed with the interpreted path "
    "(PDLMatcher / PDLRewritePattern), the compiled path (ConvertPDLToPDLInterpPass + PDLInterpRewritePattern) and the Lean "
    "specification: match decision, the full binding (interpreted path) and the canonical payload after the single rewrite are "
    "compared three ways (properties and discardable attributes told apart); an independent Python reference (constraint "
    "collection along access paths, then agreement checks) arbitrates and names the violated constraint; the payloads after greedy application (PatternRewriteWalker with a step "
    "limit) and after the passes apply-pdl{pdl_file} vs convert-pdl-to-pdl-interp + apply-pdl-interp{pdl_interp_file} are "
    "compared between the paths. Eleven defects found this way are repaired in /repo (regression inputs in harness/corpus/C27 are "
    "replayed first on every run); two known findings remain (see known_findings.json). "
    "DRIVER: XdslModel/PDL.lean also models PatternRewriteWalker on a block of region-free ops (driveWith / driveW: worklist "
    "as a LIFO stack without duplicates, populate in program or reverse order, listener pushes of created ops / users of "
    "replaced results / modified ops / single-use producers of an erased op, use lists newest-first) on top of the "
    "specification of one rewrite. XdslProofs/C27Drive.lean: drive_congr (matchers that agree on every (payload, op) give the "
    "same result under the same walker), drive_reach / drive_closed / drive_normal (every walk order: the result is reached "
    "by rewrites of the pattern alone, has no dangling uses, and no op of it matches any more), walk_order_observable "
    "(chain_forward / chain_reverse: program order and reverse order end with different payloads for root(prod(x)) -> x on a "
    "chain, so the drivers of the two passes must agree for the property to hold). Per run the passes apply-pdl and "
    "convert-pdl-to-pdl-interp + apply-pdl-interp themselves are run on def-use chains of overlapping match sites of "
    "self-overlapping, non-confluent patterns and compared with each other, with the Python reference driver and with driveW. "
    "HEADER: the model's PatternOp carries the header of the pdl.pattern op (benefit, symbol name); header_irrelevant: match, "
    "single rewrite and greedy application do not depend on it (by construction: the specification cannot read it); every "
    "generated pattern and one variant of every corpus pattern is run under a drawn header (benefit 0 / 1 / 16-bit boundary "
    "values, names incl. @matcher, @rewriters, @pdl_generated_rewriter) on both real paths against this header-blind "
    "denotation. property_shadows_attribute: the named attribute of an op that has a property and an attribute of one name "
    "is the property (payloads with such ops are generated)."
)
META["level_note"] = (
    "The predicate-tree compiler (conversion.py, 2.6k lines) and the pdl_interp interpreter are modelled by nothing; the "
    "theorems speak about the specification both are tested against, the equality of the two paths itself is tested. "
    "Payloads are single blocks of region-free ops (block arguments, multi-result ops, attributes and properties; "
    "unregistered ops are `builtin.unregistered` for both matchers). Excluded from the quantifier: rewrites that are "
    "ill-formed at run time on the probed op according to the specification (wrong number of replacement values incl. the "
    "result-type inference of the compiled path that the interpreted path lacks, erasing an op that still has uses, use of a "
    "value of an erased op) — only the match decision is compared there; both paths raising on one probe is counted as "
    "unsupported, one path raising is a difference. apply-pdl additionally erases trivially dead ops while walking "
    "(GreedyRewritePatternApplier), apply-pdl-interp does not: the passes are compared on payloads/patterns without pure or "
    "read-only ops, everything else through the bare PatternRewriteWalker. Corpus patterns outside the fragment (native "
    "constraints/rewrites, several roots, ranges) get a shape-following payload and no reference opinion; an exception on "
    "either side is counted as unsupported there. Rewrites that create ops of real dialects (arith…) are compared between "
    "the paths in full but with the specification only on the match (default properties, dialect verifiers). Greedy "
    "application is cut after a step limit (both paths hitting it = non-terminating rule, counted); a greedy walk that "
    "arrives at an ill-formed rewrite on a payload it produced itself (the reference driver says so) is outside the quantifier "
    "like an ill-formed probe. The reference driver / driveW speak about the payload block only: patterns whose root has "
    "neither operands nor results (could match the module, the wrapper op or the terminator) are compared between the passes "
    "but not with the driver model. walk_regions_first and nested payload regions are not exercised (payload ops have no "
    "regions). Not proved: preservation "
    "of dominance order by rewrites (false for replacements of non-root ops, which xDSL does not check either), totality of "
    "the binding on all pattern nodes."
)
META["rule"] = (
    "case = (single-pattern PDL module, payload block); generated patterns: 1–3 pdl.operation nodes forming a DAG through "
    "pdl.result operands (shared operands/types/attributes/operations, nameless ops, constant/typed/unconstrained attributes "
    "incl. falsy constants, constant/free types, 0–2 results, two declaration layouts, pdl.result declared in the match or the "
    "rewrite section), rewrite ∈ {replace with values, replace with new op, erase, insert only, multi-action incl. non-root and "
    "created ops, unregistered created ops}; payload = 1–3 instantiations of the pattern, each perfect or with near-miss "
    "mutations (attribute value/type/missing/renamed/moved to a property, operand dropped/added/other defining op/other result "
    "of the same op/same value twice/block argument, result type, extra result, op name), consumers and noise; corpus = every "
    "pdl.pattern of tests/filecheck/**, docs/** and tests/**/*pdl*.py with the file's own payload and generated ones; "
    "chain family (a fixed number per run, then mixed in): SELF-OVERLAPPING patterns (2–3 pdl.operation nodes of the same "
    "name / arity / result count / attribute constraint linked through pdl.result, attribute constraint on all / only "
    "producers / only the root) with rewrites whose order of application is observable (root replaced by a value from deeper "
    "in the chain, by its producer's result, by a new op with another attribute value / name / operand count, by a new op "
    "over deeper operands that matches again, root + producer replaced or erased, random); payload = def-use chains and trees "
    "whose links are overlapping instances (the previous root instance is the producer of the next root; fan-out; near-miss "
    "links; one or two chains; effectful sinks; STACK mode (3 of 10): the root is told from its producers by name or by an "
    "attribute only it demands, the rewrite puts a new root one link deeper, the payload has stacks of producer-only links "
    "under a root, so created ops match again and visiting created ops / walking to a fixpoint is observable), only ops "
    "that are never trivially dead, run through both real passes; the "
    "other generated payloads get overlapping instances with probability 0.3 per extra instance. "
    "HEADER of every generated pattern: default `: benefit(1)` (3 of 10) or benefit ∈ {0, 1, 2, 3, 42, 255, 256, 32767, 32768, "
    "65534, 65535} × symbol name ∈ {none, pat, matcher, rewriter, rewriters, pdl_generated_rewriter(_0), finalize, a.b}; every "
    "corpus pattern additionally once under a drawn non-default header. Payload ops with an attribute AND a property of the "
    "same name (prop1..3 of the test ops, any name on unregistered ops; the looked-at copy or the shadowed copy carries the "
    "fitting value). Payload forms distinguish properties from attributes. "
    "regression = minimal failing inputs of the repaired defects and of the known findings. Non-trivial = at least one probed "
    "op matches and at least one does not; distinct = distinct (pattern, payload)."
)
