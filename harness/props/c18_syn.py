"""Synthetic ArgSpecConvertible passes for C18: the documented option types that no registered pass
declares (float, int|float, tuples of floats/bools/strs, optionals with a non-None default).
No `from __future__ import annotations` here: `from_spec` resolves the hints with get_type_hints."""
from dataclasses import dataclass
from typing import Literal

from xdsl.passes import ModulePass


@dataclass(frozen=True)
class SynFloat(ModulePass):
    name = "vp-syn-float"
    x: float
    scale: float = 1.5
    eps: float | None = None
    label: str = "d"

    def apply(self, ctx, op):  # type: ignore[no-untyped-def]
        pass


@dataclass(frozen=True)
class SynNum(ModulePass):
    name = "vp-syn-num"
    n: int | float
    ms: tuple[int | float, ...]
    fs: tuple[float, ...] = (1.5,)
    either: tuple[int, ...] | tuple[float, ...] = ()
    flag: bool = True

    def apply(self, ctx, op):  # type: ignore[no-untyped-def]
        pass


@dataclass(frozen=True)
class SynOpt(ModulePass):
    name = "vp-syn-opt"
    a: int | None = 5
    s: str | None = "z"
    t: tuple[str, ...] | None = None
    b: bool | None = None
    mode: Literal["x", "y z", 'q"'] = "x"
    names: tuple[str, ...] = ("u",)

    def apply(self, ctx, op):  # type: ignore[no-untyped-def]
        pass


@dataclass(frozen=True)
class SynReq(ModulePass):
    name = "vp-syn-req"
    s: str
    b: bool
    t: tuple[bool, ...]
    u: tuple[str, ...]
    o: str | None

    def apply(self, ctx, op):  # type: ignore[no-untyped-def]
        pass


CLASSES = [SynFloat, SynNum, SynOpt, SynReq]
