"""Entry point: ./check Cxx --tier quick|thorough [--replay file]"""
from __future__ import annotations

import argparse
import importlib
import json
import os
import signal
import sys
import traceback

from vp import core


def main() -> int:
    ap = argparse.ArgumentParser()
    ap.add_argument("prop")
    ap.add_argument("--tier", default=os.environ.get("VERIF_TIER", "quick"), choices=["quick", "thorough"])
    ap.add_argument("--replay", default=None)
    ap.add_argument("--seed", type=int, default=int(os.environ.get("VERIF_SEED", "0")))
    args = ap.parse_args()
    prop = args.prop.upper()
    try:
        mod = importlib.import_module(f"props.{prop.lower()}")
    except ModuleNotFoundError as e:
        print(f"no check for {prop}: {e}", file=sys.stderr)
        return core.EXIT_INFRA
    meta = mod.META
    ctx = core.Ctx(prop, args.tier, args.seed, meta)
    hard = int(os.environ.get("VERIF_HARD_TIMEOUT_S", meta.get("hard_timeout", {}).get(args.tier, 1500 if args.tier == "quick" else 7200)))

    def on_alarm(signum, frame):  # type: ignore[no-untyped-def]
        print(f"TIMEOUT property={prop} after {hard}s (infrastructure, not a violation)", file=sys.stderr)
        os._exit(core.EXIT_INFRA)

    signal.signal(signal.SIGALRM, on_alarm)
    signal.alarm(hard)
    try:
        if args.replay:
            body = json.loads(open(args.replay).read())
            return int(mod.replay(ctx, body) or 0)
        mod.run(ctx)
        return ctx.finish()
    except core.InfraError as e:
        print(f"INFRA-ERROR property={prop}: {e}", file=sys.stderr)
        return core.EXIT_INFRA
    except Exception:
        traceback.print_exc()
        print(f"INFRA-ERROR property={prop}: harness crashed", file=sys.stderr)
        return core.EXIT_INFRA


if __name__ == "__main__":
    sys.exit(main())
