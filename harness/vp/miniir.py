"""
xDSL module  →  MiniIR S-expression (lean/XdslModel/MiniIR.lean) and helpers to run a program on
the real xDSL interpreter and on the Lean reference semantics (`sem` model of the driver).

Trusted-base note: this serialiser is part of the tie between code and model.  It is purely
syntactic (names, operand numbering, types, a handful of attribute kinds) and refuses anything it
does not understand (`Unsupported`).
"""
from __future__ import annotations

import math
import struct
from typing import Any

from vp import core


class Unsupported(Exception):
    pass


def ty_str(t: Any) -> str:
    from xdsl.dialects import builtin

    if isinstance(t, builtin.IntegerType):
        return f"i{t.width.data}"
    if isinstance(t, builtin.IndexType):
        return "index"
    if isinstance(t, builtin.Float32Type):
        return "f32"
    if isinstance(t, builtin.Float64Type):
        return "f64"
    if isinstance(t, builtin.MemRefType):
        # static shapes only (C16): `memref:<d0>x<d1>…:<elt>`
        dims = [d.data for d in t.shape.data]
        if any(d < 0 for d in dims):
            raise Unsupported(f"dynamic memref {t}")
        return "memref:" + "x".join(str(d) for d in dims) + ":" + ty_str(t.element_type)
    raise Unsupported(f"type {t}")


def affine_code(e: Any) -> list[int]:
    """prefix code of an affine expression (see `evalAffCode` in lean/XdslModel/Sem.lean)"""
    from xdsl.ir.affine import (AffineBinaryOpExpr, AffineBinaryOpKind, AffineConstantExpr, AffineDimExpr,
                                AffineSymExpr)

    if isinstance(e, AffineConstantExpr):
        return [0, e.value]
    if isinstance(e, AffineDimExpr):
        return [1, e.position]
    if isinstance(e, AffineSymExpr):
        return [2, e.position]
    if isinstance(e, AffineBinaryOpExpr):
        k = {AffineBinaryOpKind.Add: 3, AffineBinaryOpKind.Mul: 4, AffineBinaryOpKind.Mod: 5,
             AffineBinaryOpKind.FloorDiv: 6, AffineBinaryOpKind.CeilDiv: 7}[e.kind]
        return [k, *affine_code(e.lhs), *affine_code(e.rhs)]
    raise Unsupported(f"affine expression {e}")


def affine_map_code(m: Any) -> list[int]:
    out = [m.num_dims, m.num_symbols, len(m.results)]
    for r in m.results:
        out += affine_code(r)
    return out


def f64_bits(x: float) -> int:
    return struct.unpack("<Q", struct.pack("<d", x))[0]


def f32_bits(x: float) -> int:
    return struct.unpack("<I", struct.pack("<f", x))[0]


class Serializer:
    def __init__(self) -> None:
        self.vid: dict[int, int] = {}
        self.bid: dict[int, int] = {}
        self.keep: list[Any] = []

    def v(self, val: Any) -> int:
        k = id(val)
        if k not in self.vid:
            self.vid[k] = len(self.vid)
            self.keep.append(val)
        return self.vid[k]

    def b(self, blk: Any) -> int:
        k = id(blk)
        if k not in self.bid:
            self.bid[k] = len(self.bid)
            self.keep.append(blk)
        return self.bid[k]

    def attr(self, name: str, a: Any) -> str | None:
        from xdsl.dialects import builtin

        q = '"' + name + '"'
        if isinstance(a, builtin.IntegerAttr):
            return f"({q} int {int(a.value.data)} {ty_str(a.type)})"  # int(): folders may store a Python bool
        if isinstance(a, builtin.FloatAttr):
            t = ty_str(a.type)
            bits = f64_bits(a.value.data) if t == "f64" else f32_bits(a.value.data)
            return f"({q} float {bits} {t})"
        if isinstance(a, builtin.StringAttr):
            if any(c in a.data for c in '"() \n\t'):
                return None
            return f'({q} str "{a.data}")'
        if isinstance(a, builtin.SymbolRefAttr):
            return f'({q} str "{a.string_value()}")'
        if isinstance(a, builtin.UnitAttr):
            return f"({q} unit)"
        if isinstance(a, builtin.AffineMapAttr):
            return f"({q} ints " + " ".join(str(x) for x in affine_map_code(a.data)) + ")"
        if isinstance(a, builtin.DenseArrayBase):
            try:
                vals = a.get_values()
                if all(isinstance(x, int) for x in vals):
                    return f"({q} ints " + " ".join(str(x) for x in vals) + ")"
            except Exception:  # noqa: BLE001
                return None
        return None

    def op(self, o: Any) -> str:
        from xdsl.dialects import cf

        name = o.name
        res = " ".join(f"({self.v(r)} {ty_str(r.type)})" for r in o.results)
        succs = ""
        if isinstance(o, cf.BranchOp):
            ins = ""
            succs = f"({self.b(o.successor)} " + " ".join(str(self.v(x)) for x in o.arguments) + ")"
        elif isinstance(o, cf.ConditionalBranchOp):
            ins = str(self.v(o.cond))
            succs = (f"({self.b(o.then_block)} " + " ".join(str(self.v(x)) for x in o.then_arguments) + ") "
                     f"({self.b(o.else_block)} " + " ".join(str(self.v(x)) for x in o.else_arguments) + ")")
        else:
            if o.successors:
                raise Unsupported(f"successors on {name}")
            ins = " ".join(str(self.v(x)) for x in o.operands)
        attrs = []
        for k, a in list(o.properties.items()) + list(o.attributes.items()):
            s = self.attr(k, a)
            if s is not None:
                attrs.append(s)
        regions = " ".join(self.region(r) for r in o.regions)
        return f'(op "{name}" (res {res}) (ins {ins}) (attrs {" ".join(attrs)}) (succs {succs}) (regions {regions}))'

    def region(self, r: Any) -> str:
        out = []
        for blk in r.blocks:
            args = " ".join(f"({self.v(a)} {ty_str(a.type)})" for a in blk.args)
            out.append(f"(block {self.b(blk)} (args {args}) " + " ".join(self.op(o) for o in blk.ops) + ")")
        return "(region " + " ".join(out) + ")"

    def module(self, m: Any) -> str:
        from xdsl.dialects import func

        fs = []
        for o in m.body.ops:
            if not isinstance(o, func.FuncOp):
                raise Unsupported(f"top-level {o.name}")
            nm = o.sym_name.data
            if not o.body.blocks or not o.body.blocks.first.ops:
                fs.append(f'(func "{nm}" extern)')
            else:
                fs.append(f'(func "{nm}" {self.region(o.body)})')
        return "(module " + " ".join(fs) + ")"


def serialize(module: Any) -> str:
    s = Serializer().module(module)
    if "\n" in s:
        raise Unsupported("newline in serialisation")
    return s


# ------------------------------------------------------------------------------------------------
# values
# ------------------------------------------------------------------------------------------------

def width_of(t: str) -> int:
    return 64 if t == "index" else int(t[1:])


def show_val(t: str, v: Any) -> str:
    """canonical text of a Python runtime value of MiniIR type `t` (same format as Lean's showVal);
    representation defects are made visible instead of being normalised away"""
    if t in ("f64", "f32"):
        if not isinstance(v, float):
            return f"{t}:!nonfloat:{v!r}"
        if math.isnan(v):
            return f"{t}:nan"
        if t == "f64":
            return f"f64:{f64_bits(v):x}"
        try:
            r = struct.unpack("<f", struct.pack("<f", v))[0]
        except OverflowError:
            return f"f32:!unrounded:{f64_bits(v):x}"
        if f64_bits(r) != f64_bits(v):
            return f"f32:!unrounded:{f64_bits(v):x}"
        return f"f32:{f32_bits(v):x}"
    w = width_of(t)
    if isinstance(v, bool):
        v = int(v)
    if not isinstance(v, int):
        return f"i{w}:!nonint:{v!r}"
    if not (-(1 << (w - 1)) <= v < (1 << w)):
        return f"i{w}:!outofrange:{v}"
    u = v % (1 << w)
    s = u - (1 << w) if u >> (w - 1) else u
    return f"i{w}:{s}"


def arg_text(t: str, v: Any) -> str:
    """protocol text of an argument for the Lean side"""
    if t == "f64":
        return f"f64:{f64_bits(v)}"
    if t == "f32":
        return f"f32:{f32_bits(v)}"
    return f"{t if t != 'index' else 'index'}:{v}"


# ------------------------------------------------------------------------------------------------
# running on the real interpreter
# ------------------------------------------------------------------------------------------------

def make_interpreter(module: Any, effects: list[str], ext_names: list[tuple[str, list[str]]]):
    from xdsl.interpreter import Interpreter, InterpreterFunctions, impl_external, register_impls
    from xdsl.interpreters.arith import ArithFunctions
    from xdsl.interpreters.cf import CfFunctions
    from xdsl.interpreters.func import FuncFunctions
    from xdsl.interpreters.scf import ScfFunctions

    ns: dict[str, Any] = {}
    for name, tys in ext_names:
        def mk(name=name, tys=tys):
            def f(self, interpreter, op, args):
                effects.append(name + "(" + ",".join(show_val(t, a) for t, a in zip(tys, args)) + ")")
                return ()
            return impl_external(name)(f)
        ns["ext_" + name] = mk()
    Ext = register_impls(type("Ext", (InterpreterFunctions,), ns))
    it = Interpreter(module, index_bitwidth=64)
    for fs in (FuncFunctions(), ArithFunctions(), CfFunctions(), ScfFunctions(), Ext()):
        it.register_implementations(fs)
    return it


def run_real(module: Any, fname: str, args: list[Any], cpu_budget_s: float = 10.0) -> str:
    """result line in the format of Lean's showRes, or `raise <Exc>`"""
    from xdsl.dialects import func

    effects: list[str] = []
    exts = []
    ret_tys: list[str] = []
    for o in module.body.ops:
        if isinstance(o, func.FuncOp):
            if not o.body.blocks or not o.body.blocks.first.ops:
                exts.append((o.sym_name.data, [ty_str(t) for t in o.function_type.inputs.data]))
            if o.sym_name.data == fname:
                ret_tys = [ty_str(t) for t in o.function_type.outputs.data]
    it = make_interpreter(module, effects, exts)
    import signal

    def _guard(signum, frame):  # CPU-time guard: a runaway interpretation is not a verdict
        raise TimeoutError("real interpreter exceeded its CPU budget")

    old = signal.signal(signal.SIGVTALRM, _guard)
    signal.setitimer(signal.ITIMER_VIRTUAL, cpu_budget_s)
    try:
        res = it.call_op(fname, tuple(args))
    except Exception as e:  # noqa: BLE001
        return "raise " + core.exc_name(e)
    finally:
        signal.setitimer(signal.ITIMER_VIRTUAL, 0)
        signal.signal(signal.SIGVTALRM, old)
    return "ok [" + ",".join(show_val(t, v) for t, v in zip(ret_tys, res)) + "] effects [" + " ".join(effects) + "]"


def run_real_session(module: Any, calls: list[tuple[Any, list[Any]]], cpu_budget_s: float = 10.0) -> list[str]:
    """Like `run_real`, but ALL calls run on ONE Interpreter instance, in order (state that survives
    between calls -- caches, leftover scopes -- becomes observable).  `calls` = [(symbol, args)], symbol
    a str or a SymbolRefAttr naming a func.func directly under `module`.  One result line per call
    (`skipped` for every call after one that raised)."""
    from xdsl.dialects import func

    effects: list[str] = []
    exts = []
    for o in module.body.ops:
        if isinstance(o, func.FuncOp) and (not o.body.blocks or not o.body.blocks.first.ops):
            exts.append((o.sym_name.data, [ty_str(t) for t in o.function_type.inputs.data]))
    it = make_interpreter(module, effects, exts)
    import signal

    def _guard(signum, frame):
        raise TimeoutError("real interpreter exceeded its CPU budget")

    out: list[str] = []
    for sym, args in calls:
        if out and out[-1].split(" ")[0] in ("raise", "skipped"):
            out.append("skipped")   # an exception may leave the interpreter mid-function: nothing is demanded of later calls
            continue
        del effects[:]
        ret_tys: list[str] = []
        for o in module.body.ops:
            if isinstance(o, func.FuncOp) and o.sym_name.data == (sym if isinstance(sym, str) else sym.string_value()):
                ret_tys = [ty_str(t) for t in o.function_type.outputs.data]
        old = signal.signal(signal.SIGVTALRM, _guard)
        signal.setitimer(signal.ITIMER_VIRTUAL, cpu_budget_s)
        try:
            res = it.call_op(sym, tuple(args))
            out.append("ok [" + ",".join(show_val(t, v) for t, v in zip(ret_tys, res)) + "] effects [" + " ".join(effects) + "]")
        except Exception as e:  # noqa: BLE001
            out.append("raise " + core.exc_name(e))
        finally:
            signal.setitimer(signal.ITIMER_VIRTUAL, 0)
            signal.signal(signal.SIGVTALRM, old)
    return out
