"""
Core of the verification harness: Lean build + audit, model driver bridge, evidence,
known findings, violation reporting.  Runs under /venv/bin/python with /repo first on sys.path
so that the *current working tree* of xDSL is what gets exercised.
"""
from __future__ import annotations

import fcntl
import hashlib
import json
import os
import random
import re
import subprocess
import sys
import time
from collections import Counter
from pathlib import Path
from typing import Any, Callable, Iterable, Sequence

VERIF = Path(__file__).resolve().parents[2]
LEAN = VERIF / "lean"
REPO = Path(os.environ.get("XDSL_REPO", "/repo"))
DRIVER = LEAN / ".lake" / "build" / "bin" / "driver"
ALLOWED_AXIOMS = {"propext", "Classical.choice", "Quot.sound"}
FORBIDDEN = re.compile(
    r"\bsorry\b|\badmit\b|^\s*axiom\s|native_decide|bv_decide|implemented_by|\bunsafe\s|maxHeartbeats\s+0\b"
)

EXIT_OK, EXIT_VIOLATION, EXIT_INFRA = 0, 1, 2


class InfraError(Exception):
    """Something in the machinery (not in xDSL, not in a proof) failed: exit 2, never a VIOLATION."""


# --------------------------------------------------------------------------------------------
# Lean side
# --------------------------------------------------------------------------------------------

def _lake(args: Sequence[str], timeout: int = 3000) -> subprocess.CompletedProcess[str]:
    lock = LEAN / ".lake-verif.lock"
    with open(lock, "w") as lf:
        fcntl.flock(lf, fcntl.LOCK_EX)
        try:
            return subprocess.run(
                ["lake", *args], cwd=LEAN, capture_output=True, text=True, timeout=timeout
            )
        finally:
            fcntl.flock(lf, fcntl.LOCK_UN)


def _locked_run(cmd: Sequence[str], timeout: int = 3000) -> subprocess.CompletedProcess[str]:
    lock = LEAN / ".lake-verif.lock"
    with open(lock, "w") as lf:
        fcntl.flock(lf, fcntl.LOCK_EX)
        try:
            return subprocess.run(list(cmd), cwd=LEAN, capture_output=True, text=True, timeout=timeout)
        finally:
            fcntl.flock(lf, fcntl.LOCK_UN)


def lake_build(targets: Sequence[str]) -> tuple[bool, str]:
    p = _lake(["build", *targets])
    return p.returncode == 0, (p.stdout + p.stderr)


def strip_comments(src: str) -> str:
    # remove nested /- -/ comments and -- line comments
    out, depth, i, n = [], 0, 0, len(src)
    while i < n:
        if src.startswith("/-", i):
            depth += 1
            i += 2
        elif src.startswith("-/", i) and depth:
            depth -= 1
            i += 2
        elif depth:
            if src[i] == "\n":
                out.append("\n")
            i += 1
        elif src.startswith("--", i):
            while i < n and src[i] != "\n":
                i += 1
        else:
            out.append(src[i])
            i += 1
    return "".join(out)


def module_path(mod: str) -> Path:
    return LEAN / (mod.replace(".", "/") + ".lean")


def transitive_local_modules(mods: Iterable[str]) -> list[str]:
    """All modules of this package reachable by `import` from `mods` (XdslModel.* and XdslProofs.*)."""
    seen: list[str] = []
    todo = list(mods)
    while todo:
        m = todo.pop()
        if m in seen:
            continue
        p = module_path(m)
        if not p.exists():
            continue
        seen.append(m)
        for line in p.read_text().splitlines():
            mm = re.match(r"\s*import\s+((?:XdslModel|XdslProofs)[\w.]*)", line)
            if mm:
                todo.append(mm.group(1))
    return sorted(seen)


def audit(proof_modules: Sequence[str]) -> dict[str, Any]:
    """Grep for forbidden constructs and collect `#print axioms`-style data for every source-level
    theorem of the proof modules (and the local modules they import)."""
    mods = transitive_local_modules(proof_modules)
    forbidden_hits: list[str] = []
    declared: dict[str, set[str]] = {}
    for m in mods:
        src = strip_comments(module_path(m).read_text())
        for ln, line in enumerate(src.splitlines(), 1):
            if FORBIDDEN.search(line):
                forbidden_hits.append(f"{m}:{ln}: {line.strip()}")
        declared[m] = set(re.findall(r"^\s*(?:@\[[^\]]*\]\s*)?(?:private\s+|protected\s+)?(?:theorem|lemma)\s+([^\s:({\[]+)", src, re.M))
    proof_mods = [m for m in mods if m.startswith("XdslProofs")]
    auditdir = LEAN / ".lake" / "audit"
    auditdir.mkdir(parents=True, exist_ok=True)
    key = hashlib.sha1(" ".join(proof_mods).encode()).hexdigest()[:10]
    f = auditdir / f"audit_{key}_{os.getpid()}.lean"
    names = ", ".join("`" + m for m in proof_mods)
    f.write_text(
        "import Lean\n"
        + "".join(f"import {m}\n" for m in proof_modules)
        + "open Lean Elab Command\n"
        + "run_cmd do\n"
        + "  let env ← getEnv\n"
        + f"  let mods : List Name := [{names}]\n"
        + "  for m in mods do\n"
        + "    match env.getModuleIdx? m with\n"
        + '    | none => IO.println s!"AUDIT-MISSING {m}"\n'
        + "    | some idx =>\n"
        + "      for n in env.header.moduleData[idx.toNat]!.constNames do\n"
        + "        if n.isInternal then continue\n"
        + "        match env.find? n with\n"
        + "        | some (.thmInfo _) =>\n"
        + "          let axs ← liftCoreM (collectAxioms n)\n"
        + '          IO.println s!"AUDIT {m} {n} {axs.toList}"\n'
        + "        | _ => pure ()\n"
    )
    try:
        # under the build lock (no concurrent `lake build` of another check may rewrite .olean files while
        # they are loaded), and once more after a pause when Lean itself failed to load the modules
        p = _locked_run(["lake", "env", "lean", str(f)], timeout=1200)
        if p.returncode != 0 or "AUDIT " not in p.stdout:
            time.sleep(3)
            lake_build(list(proof_modules))
            p = _locked_run(["lake", "env", "lean", str(f)], timeout=1200)
    finally:
        try:
            f.unlink()
        except OSError:
            pass
    theorems: dict[str, list[str]] = {}
    missing: list[str] = []
    for line in p.stdout.splitlines():
        if line.startswith("AUDIT-MISSING"):
            missing.append(line.split()[1])
        mm = re.match(r"AUDIT (\S+) (\S+) \[(.*)\]", line)
        if mm:
            mod, name, axs = mm.groups()
            last = name.split(".")[-1]
            # keep only theorems written in the source (drop auto-generated equation lemmas)
            if any(last == d.split(".")[-1] for d in declared.get(mod, ())):
                theorems[f"{mod}:{name}"] = [a.strip() for a in axs.split(",") if a.strip()]
    bad = {k: v for k, v in theorems.items() if not set(v) <= ALLOWED_AXIOMS}
    ok = p.returncode == 0 and not missing and not forbidden_hits and not bad and theorems
    return {
        "ok": bool(ok),
        "returncode": p.returncode,
        "stderr": p.stderr[-2000:],
        "modules": mods,
        "theorems": theorems,
        "obligations": len(theorems),
        "discharged": len(theorems) - len(bad),
        "bad_axioms": bad,
        "forbidden_hits": forbidden_hits,
        "missing_modules": missing,
        "axioms_used": sorted({a for v in theorems.values() for a in v}),
    }


def run_model(model: str, lines: Sequence[str], timeout: int = 600) -> list[str]:
    """Pipe `lines` through the native Lean driver for `model`; one output line per input line."""
    if not DRIVER.exists():
        raise InfraError(f"driver not built: {DRIVER}")
    for l in lines:
        if "\n" in l:
            raise InfraError(f"protocol line contains newline: {l!r}")
    inp = f"MODEL {model}\n" + "".join(l + "\n" for l in lines)
    p = subprocess.run([str(DRIVER)], input=inp, capture_output=True, text=True, timeout=timeout)
    if p.returncode != 0:
        raise InfraError(f"driver failed for model {model}: rc={p.returncode} {p.stderr[-500:]}")
    out = p.stdout.split("\n")
    if out and out[-1] == "":
        out.pop()
    if len(out) != len(lines):
        raise InfraError(f"driver returned {len(out)} lines for {len(lines)} inputs (model {model})")
    return out


# --------------------------------------------------------------------------------------------
# Known findings
# --------------------------------------------------------------------------------------------

def load_known_findings() -> list[dict[str, Any]]:
    p = VERIF / "known_findings.json"
    if not p.exists():
        return []
    return json.loads(p.read_text())["findings"]


# --------------------------------------------------------------------------------------------
# Check context
# --------------------------------------------------------------------------------------------

class Failure:
    def __init__(self, kind: str, call_site: str, signature: str, case: Any, description: str,
                 impl_obs: Any = None, model_obs: Any = None, theorem: str | None = None):
        self.kind = kind  # failing-input | broken-proof | broken-correspondence
        self.call_site = call_site
        self.signature = signature
        self.case = case
        self.description = description
        self.impl_obs = impl_obs
        self.model_obs = model_obs
        self.theorem = theorem


class Ctx:
    def __init__(self, prop: str, tier: str, seed: int, meta: dict[str, Any]):
        self.prop, self.tier, self.seed, self.meta = prop, tier, seed, meta
        self.rng = random.Random(f"{prop}:{seed}")
        self.t0 = time.time()
        self.t_budget0 = self.t0  # the exploration budget starts after the Lean build + audit
        self.evaluations = 0
        self.nontrivial: set[Any] = set()
        self.hist: Counter[str] = Counter()
        self.samples: list[Any] = []
        self.failures: list[Failure] = []
        self.assumptions: list[str] = list(meta.get("assumptions", []))
        self.extra: dict[str, Any] = {}
        self.audit_result: dict[str, Any] | None = None
        self.exhaustive: bool | None = None
        self.programs = 0
        self.disagreements_checked = 0
        self.budget_s = float(os.environ.get("VERIF_BUDGET_S", meta.get("budget", {}).get(tier, 120 if tier == "quick" else 900)))

    # -- bookkeeping ---------------------------------------------------------------------
    def time_left(self) -> float:
        return self.budget_s - (time.time() - self.t_budget0)

    def ev(self, n: int = 1) -> None:
        self.evaluations += n

    def nt(self, key: Any) -> None:
        """record a distinct non-trivial case (hashable canonical key)"""
        if len(self.nontrivial) < 2_000_000:
            self.nontrivial.add(key if isinstance(key, (str, int, tuple)) else json.dumps(key, sort_keys=True, default=str))

    def count(self, key: str, n: int = 1) -> None:
        self.hist[key] += n

    def sample(self, obj: Any, cap: int = 6) -> None:
        if len(self.samples) < cap:
            self.samples.append(obj)

    # -- failures ------------------------------------------------------------------------
    def fail(self, call_site: str, signature: str, case: Any, description: str,
             impl_obs: Any = None, model_obs: Any = None) -> None:
        """The property's oracle failed on the real implementation at `case`."""
        # keep one (the smallest by json length) per (call_site, signature)
        f = Failure("failing-input", call_site, signature, case, description, impl_obs, model_obs)
        for i, g in enumerate(self.failures):
            if g.kind == f.kind and (g.call_site, g.signature) == (call_site, signature):
                if len(json.dumps(case, default=str)) < len(json.dumps(g.case, default=str)):
                    self.failures[i] = f
                return
        self.failures.append(f)

    def mismatch(self, correspondence: str, case: Any, impl_obs: Any, model_obs: Any, description: str = "") -> None:
        """Implementation and model disagree but the direct oracle has not (yet) failed."""
        for g in self.failures:
            if g.kind == "broken-correspondence" and g.theorem == correspondence:
                return
        self.failures.append(Failure("broken-correspondence", correspondence, "", case,
                                     description or "implementation and Lean model disagree",
                                     impl_obs, model_obs, theorem=correspondence))

    def broken_proof(self, theorem: str, log: str) -> None:
        self.failures.append(Failure("broken-proof", theorem, "", None, log[-4000:], theorem=theorem))

    # -- lean ----------------------------------------------------------------------------
    def lean(self, proof_modules: Sequence[str] | None = None) -> bool:
        """Build model + driver + this property's proof modules from the current tree, audit them.
        Returns True when everything checks.  A failure is recorded as broken-proof (the caller
        still runs its search for a failing input)."""
        mods = list(proof_modules if proof_modules is not None else self.meta["lean_modules"])
        try:
            return self._lean(mods)
        finally:
            self.t_budget0 = time.time()

    def _lean(self, mods: list[str]) -> bool:
        ok, log = lake_build(["XdslModel", "driver", *self.meta.get("extra_targets", []), *mods])
        if not ok:
            # distinguish model/driver build errors in proof modules from infra
            first = re.search(r"error: (\S+\.lean):(\d+)", log)
            self.broken_proof(first.group(0) if first else "lake build", log)
            # try to still have a driver
            lake_build(["driver"])
            return False
        a = audit(mods)
        self.audit_result = a
        if not a["ok"]:
            what = (a["forbidden_hits"] or list(a["bad_axioms"]) or a["missing_modules"] or ["audit failed: " + a["stderr"][-300:]])
            self.broken_proof("audit: " + "; ".join(map(str, what))[:500], json.dumps(a, default=str)[-3000:])
            return False
        return True

    def model(self, name: str, lines: Sequence[str]) -> list[str]:
        return run_model(name, lines)

    # -- finish --------------------------------------------------------------------------
    def finish(self) -> int:
        known = [k for k in load_known_findings() if k.get("property") == self.prop]
        wall = time.time() - self.t0
        violations = 0
        out_lines: list[str] = []
        oracle_failed = [f for f in self.failures if f.kind == "failing-input"]
        others = [f for f in self.failures if f.kind != "failing-input"]
        reported_known: set[str] = set()
        unknown_oracle = []
        for f in oracle_failed:
            k = next((k for k in known if k.get("status") == "known" and k["call_site"] == f.call_site
                      and k["signature"] == f.signature), None)
            if k is not None:
                tag = f"{f.call_site} [{f.signature}]"
                if tag not in reported_known:
                    reported_known.add(tag)
                    out_lines.append(f"KNOWN-FINDING: property={self.prop} {tag}: {k['description']}")
            else:
                unknown_oracle.append(f)
        (VERIF / "replays").mkdir(exist_ok=True)
        for f in unknown_oracle:
            violations += 1
            out_lines.append(f"VIOLATION property={self.prop} replay={self._write_replay(f)}")
        # A broken proof / correspondence alone is not a defect of xDSL, but the property is no
        # longer shown to hold.  If the search exhibited an (unlisted) failing input above, that
        # input is the replay; if every failing input found is a listed known finding, or none was
        # found, the breakage is reported with `no-failing-input-found`.
        if others and not unknown_oracle:
            for f in others:
                violations += 1
                out_lines.append(
                    f"VIOLATION property={self.prop} replay={self._write_replay(f)} no-failing-input-found")
        elif others:
            for f in others:
                self.extra.setdefault("also_broken", []).append({"kind": f.kind, "what": f.theorem})
        self._write_evidence(wall, violations, [l for l in out_lines if l.startswith("KNOWN")])
        for l in out_lines:
            print(l)
        sys.stdout.flush()
        return EXIT_VIOLATION if violations else EXIT_OK

    def _write_replay(self, f: Failure) -> str:
        body = {
            "property": self.prop,
            "kind": f.kind,
            "seed": self.seed,
            "tier": self.tier,
            "call_site": f.call_site,
            "signature": f.signature,
            "case": f.case,
            "description": f.description,
            "impl_observation": f.impl_obs,
            "model_observation": f.model_obs,
            "theorem_or_correspondence": f.theorem,
            "how_to_replay": f"./check {self.prop} --replay <this file>",
        }
        h = hashlib.sha1(json.dumps([f.kind, f.call_site, f.signature, f.case], sort_keys=True, default=str).encode()).hexdigest()[:12]
        rel = f"replays/{self.prop}-{h}.json"
        (VERIF / rel).write_text(json.dumps(body, indent=1, default=str))
        return rel

    def _write_evidence(self, wall: float, violations: int, known_lines: list[str]) -> None:
        level = self.meta["category"]
        cov: dict[str, Any] = {
            "evaluations": self.evaluations,
            "distinct_nontrivial": len(self.nontrivial),
            "rule": self.meta.get("rule", ""),
            "samples": self.samples or ["(no case generated)"],
            "input_histogram": dict(sorted(self.hist.items())),
        }
        if self.exhaustive is not None:
            cov["exhaustive"] = self.exhaustive
        a = self.audit_result
        if a is not None:
            cov.update({
                "obligations": a["obligations"],
                "discharged": a["discharged"],
                "checker_cmd": "cd lean && lake build " + " ".join(self.meta["lean_modules"]) + " && lake env lean <generated audit file calling Lean.collectAxioms on every source-level theorem>",
                "trusted_base": [
                    "Lean 4.33.0 kernel",
                    "axioms used by these theorems: " + ", ".join(a["axioms_used"] or ["(none)"]),
                    *self.meta.get("trusted_base", []),
                ],
                "lean_modules": a["modules"],
                "property_theorems": sorted(k for k in a["theorems"] if any(k.startswith(m + ":") for m in self.meta["lean_modules"])),
            })
        if level == "translation_validation" or self.programs:
            cov["programs"] = self.programs
            cov["disagreements_checked"] = self.disagreements_checked
        if level == "other":
            cov["explanation"] = self.meta.get("explanation", self.meta.get("text", ""))
        cov.update(self.extra)
        ev = {
            "property_id": self.prop,
            "tier": self.tier,
            "seed": self.seed,
            "level": level,
            "coverage": cov,
            "assumptions": self.assumptions,
            "wall_s": round(wall, 2),
            "violations": violations,
            "known_findings_reported": known_lines,
        }
        (VERIF / "evidence").mkdir(exist_ok=True)
        (VERIF / "evidence" / f"{self.prop}.json").write_text(json.dumps(ev, indent=1, default=str) + "\n")


# --------------------------------------------------------------------------------------------
# helpers shared by property modules
# --------------------------------------------------------------------------------------------

def exc_name(e: BaseException) -> str:
    return type(e).__name__


def diff_streams(impl: Sequence[str], model: Sequence[str]) -> int | None:
    """index of first differing line, or None"""
    for i, (a, b) in enumerate(zip(impl, model)):
        if a != b:
            return i
    if len(impl) != len(model):
        return min(len(impl), len(model))
    return None


def shrink_list(ops: list[Any], still_fails: Callable[[list[Any]], bool], max_steps: int = 2000) -> list[Any]:
    """Delta-debugging on a list: drop chunks while `still_fails`."""
    cur = list(ops)
    n = 2
    steps = 0
    while len(cur) >= 2 and steps < max_steps:
        chunk = max(1, len(cur) // n)
        reduced = False
        for i in range(0, len(cur), chunk):
            cand = cur[:i] + cur[i + chunk:]
            steps += 1
            if cand and still_fails(cand):
                cur = cand
                n = max(n - 1, 2)
                reduced = True
                break
        if not reduced:
            if chunk == 1:
                break
            n = min(n * 2, len(cur))
    return cur
