"""
Random generator of func/arith/cf/scf programs (MLIR text), shared by C13–C16, C28.
All randomness comes from the `random.Random` passed in.  Programs are mostly valid and mostly
UB-free; the Lean reference semantics classifies UB at run time so that it can be excluded.
"""
from __future__ import annotations

import itertools
import math
import struct
from dataclasses import dataclass, field
from typing import Any

INT_OPS_INTERP = ["addi", "subi", "muli", "andi", "ori", "xori", "shli", "shrsi", "divsi", "remsi", "floordivsi"]
INT_OPS_ALL = INT_OPS_INTERP + ["shrui", "divui", "remui", "ceildivsi", "ceildivui", "minsi", "maxsi", "minui", "maxui"]
FLOAT_OPS_INTERP = ["addf", "subf", "mulf", "minimumf", "maximumf"]
FLOAT_OPS_ALL = FLOAT_OPS_INTERP + ["divf"]
CMPI = ["eq", "ne", "slt", "sle", "sgt", "sge", "ult", "ule", "ugt", "uge"]
CMPF = ["false", "oeq", "ogt", "oge", "olt", "ole", "one", "ord", "ueq", "ugt", "uge", "ult", "ule", "une", "uno", "true"]


def width(t: str) -> int:
    return 64 if t == "index" else int(t[1:])


@dataclass
class Config:
    int_types: list[str] = field(default_factory=lambda: ["i1", "i8", "i16", "i32", "i64", "index"])
    float_types: list[str] = field(default_factory=lambda: ["f32", "f64"])
    int_ops: list[str] = field(default_factory=lambda: list(INT_OPS_INTERP))
    float_ops: list[str] = field(default_factory=lambda: list(FLOAT_OPS_INTERP))
    cmpi_preds: list[str] = field(default_factory=lambda: list(CMPI))
    casts: list[str] = field(default_factory=lambda: ["index_cast"])
    scf_if: bool = True
    scf_for: bool = True
    cf: bool = True
    calls: bool = True
    externs: bool = True
    select: bool = False
    max_stmts: int = 8
    max_depth: int = 2
    symbolic_bounds: bool = True
    # C16: extra statement shapes aimed at what the loop passes match; each entry is a kind of
    # `ProgGen.shape` ("fold", "nest", "while", "licm", "hoist_if", "unroll_perm").  Empty = generator unchanged.
    loop_shapes: list[str] = field(default_factory=list)
    shape_weight: int = 3
    # --- additions for C14 (all default to the previous behaviour and consume no randomness when off)
    reuse_prob: float = 0.85        # probability that an operand is an existing value (else a fresh constant)
    i1_arith: bool = False          # integer binary ops also on i1
    safe_shifts: bool = False       # shift amounts are always fresh constants in [0, w]
    negf: bool = False              # arith.negf
    const_pairs: bool = False       # statements whose operands are all fresh (boundary) constants
    fastmath_reassoc: bool = False  # (c1 op x) op c2 chains of addf/mulf carrying fastmath<reassoc>
    cmpi_same: bool = False         # arith.cmpi with identical operands
    select_const: bool = False      # i1 selects between constants / with a constant condition
    cf_extras: bool = False         # cond_br with identical successors, pass-through blocks
    cf_extras_select: bool = True   # ... followed (half of the time) by an arith.select on the same condition
    observe_all: bool = False       # every value computed at the top level (and most values computed in
                                    # scf bodies) is passed to an external function, so that it is observable
    float_extremes: bool = False    # float constants near the overflow / underflow thresholds
    twin_consts: bool = False       # now and then an integer constant is a "twin" of an earlier constant of the
                                    # same type in the program: a different value with the SAME Python hash
                                    # (hash(-1) == hash(-2); v and v + k*(2**61-1)), else a neighbour v+-1 --
                                    # what a pass that keys a dict/set on attributes must keep apart


def hash_twins(v: int, w: int) -> list[int]:
    """the other w-bit (signed representative) integers whose Python hash equals hash(v)"""
    import sys

    m = sys.hash_info.modulus
    lo, hi = -(1 << (w - 1)), (1 << (w - 1)) - 1
    cands = {v + k * m for k in range(-4, 5)} | {-1, -2, -1 - m, -2 - m}
    return sorted(c for c in cands if lo <= c <= hi and c != v and hash(c) == hash(v))


class ProgGen:
    def __init__(self, rng: Any, cfg: Config | None = None):
        self.rng = rng
        self.cfg = cfg or Config()
        self.n = 0
        self.nb = 0
        self.ext_sigs: dict[str, str] = {}
        self.helpers: list[str] = []
        self.force_returns: list[tuple[str, str]] = []   # C16 shapes: top-level loop results to return
        self.seen_ints: dict[str, list[int]] = {}

    def fresh(self, p: str = "v") -> str:
        self.n += 1
        return f"%{p}{self.n}"

    def fresh_block(self) -> str:
        self.nb += 1
        return f"^bb{self.nb}"

    # ------------------------------------------------------------------ constants
    def int_const(self, t: str) -> int:
        if not self.cfg.twin_consts:
            return self.int_const_base(t)
        seen = self.seen_ints.setdefault(t, [])
        v = None
        if seen and width(t) > 1 and self.rng.random() < 0.25:
            u = self.rng.choice(seen)
            tw = hash_twins(u, width(t))
            v = self.rng.choice(tw) if tw else self.wrap(u + self.rng.choice([1, -1]), width(t))
        if v is None:
            v = self.int_const_base(t)
        seen.append(v)
        return v

    def int_const_base(self, t: str) -> int:
        w = width(t)
        r = self.rng.random()
        lo, hi = -(1 << (w - 1)), (1 << (w - 1)) - 1
        if w == 1:
            return self.rng.choice([0, -1, 1]) if False else self.rng.choice([0, 1])
        if r < 0.35:
            return self.wrap(self.rng.choice([0, 1, 2, 3, -1, -2, 5, 7]), w)
        if r < 0.6:
            return self.wrap(self.rng.choice([lo, lo + 1, hi, hi - 1, -1, 1 << (w - 2), w - 1, w]), w)
        return self.rng.randint(max(lo, -1000), min(hi, 1000)) if r < 0.85 else self.rng.randint(lo, hi)

    def safe_shift_amount(self, t: str) -> int:
        """a shift amount in [0, w] (w itself is the smallest undefined amount); for 64-bit types now
        and then an amount with the top bit set: Python's `<<` refuses it at once (MemoryError) instead
        of building a huge integer, which is what an interpreter-based folder has to survive"""
        w = width(t)
        if w == 64 and self.rng.random() < 0.1:
            return self.rng.choice([-1, -(1 << 63)])
        return self.wrap(self.rng.randrange(0, w + 1), w)

    @staticmethod
    def wrap(v: int, w: int) -> int:
        """two's-complement representative of v in [-2^(w-1), 2^(w-1)) (identity for the boundary
        values used above when w >= 8)"""
        u = v % (1 << w)
        return u - (1 << w) if u >> (w - 1) else u

    def float_const_text(self, t: str) -> str:
        r = self.rng.random()
        if self.cfg.float_extremes and self.rng.random() < 0.15:
            if t == "f32":
                return self.rng.choice(["0x7F7FFFFF", "0xFF7FFFFF", "0x7F000000", "0x00000001", "0x80000001", "0x00800000", "0x7E967699", "0x0DA24260"])
            return self.rng.choice(["0x7FEFFFFFFFFFFFFF", "0xFFEFFFFFFFFFFFFF", "0x7FE0000000000000", "0x0000000000000001", "0x8000000000000001", "0x0010000000000000", "0x7E37E43C8800759C", "0x01A56E1FC2F8F359"])
        if r < 0.5:
            v = self.rng.choice([0.0, -0.0, 1.0, -1.0, 0.5, 2.0, 3.0, 1.5, -2.5, 0.1, 100.0, 16777216.0, 1e10, 1e-3])
        elif r < 0.6:
            return self.rng.choice(["0x7F800000", "0xFF800000", "0x7FC00000"]) if t == "f32" else self.rng.choice(["0x7FF0000000000000", "0xFFF0000000000000", "0x7FF8000000000000"])
        else:
            v = self.rng.uniform(-50, 50)
        if t == "f32":
            v = struct.unpack("<f", struct.pack("<f", v))[0]
        s = repr(float(v))
        if "e" in s or "inf" in s or "nan" in s:
            bits = struct.unpack("<I", struct.pack("<f", v))[0] if t == "f32" else struct.unpack("<Q", struct.pack("<d", v))[0]
            return f"0x{bits:0{8 if t == 'f32' else 16}X}"
        return s

    def observe(self, new: dict[str, list[str]], old: dict[str, list[str]], lines: list[str], ind: str, prob: float) -> None:
        """external calls on the values of `new` that are not in `old`"""
        for t in sorted(k for k in new if not k.startswith("__")):
            for v in new[t]:
                if v in old.get(t, ()) or self.rng.random() >= prob:
                    continue
                name = f"ext_{t}"
                self.ext_sigs[name] = t
                lines.append(f"{ind}func.call @{name}({v}) : ({t}) -> ()")

    # ------------------------------------------------------------------ statements
    def pick(self, pool: dict[str, list[str]], t: str, lines: list[str], ind: str) -> str:
        vs = pool.get(t, [])
        if vs and self.rng.random() < self.cfg.reuse_prob:
            return self.rng.choice(vs)
        return self.const(pool, t, lines, ind)

    def const(self, pool: dict[str, list[str]], t: str, lines: list[str], ind: str) -> str:
        v = self.fresh("c")
        if t in self.cfg.float_types:
            lines.append(f"{ind}{v} = arith.constant {self.float_const_text(t)} : {t}")
        elif t == "i1":
            lines.append(f"{ind}{v} = arith.constant {'true' if self.rng.random() < 0.5 else 'false'}")
        else:
            lines.append(f"{ind}{v} = arith.constant {self.int_const(t)} : {t}")
        pool.setdefault(t, []).append(v)
        return v

    def stmt(self, pool: dict[str, list[str]], lines: list[str], ind: str, depth: int) -> None:
        c = self.cfg
        kinds = ["int"] * 6 + ["cmpi"] * 2
        if c.float_types and c.float_ops:
            kinds += ["float"] * 2 + ["cmpf"]
        if c.casts:
            kinds += ["cast"]
        if c.select:
            kinds += ["select"]
        if depth < c.max_depth:
            if c.scf_if:
                kinds += ["if"] * 2
            if c.scf_for:
                kinds += ["for"] * 2
        if c.externs:
            kinds += ["ext"]
        if c.calls and self.helpers:
            kinds += ["call"]
        if c.loop_shapes and depth < c.max_depth:
            for sh in c.loop_shapes:
                kinds += ["shape:" + sh] * c.shape_weight
        if c.negf and c.float_types:
            kinds += ["negf"]
        if c.const_pairs:
            kinds += ["constpair"] * 3
        if c.fastmath_reassoc and c.float_types:
            kinds += ["reassoc"]
        if c.cmpi_same:
            kinds += ["cmpi_same"]
        if c.select_const:
            kinds += ["select_const"]
        k = self.rng.choice(kinds)
        if k.startswith("shape:"):
            self.shape(k[6:], pool, lines, ind, depth)
            return
        if k == "int":
            t = self.rng.choice(c.int_types if c.i1_arith else ([x for x in c.int_types if x != "i1"] or c.int_types))
            op = self.rng.choice(c.int_ops)
            a, b = self.pick(pool, t, lines, ind), self.pick(pool, t, lines, ind)
            if op in ("shli", "shrsi", "shrui") and c.safe_shifts:
                b = self.fresh("c")
                lines.append(f"{ind}{b} = arith.constant {self.safe_shift_amount(t)} : {t}")
            elif op in ("shli", "shrsi", "shrui") and self.rng.random() < 0.8:
                b = self.fresh("c")
                lines.append(f"{ind}{b} = arith.constant {self.rng.randrange(0, width(t))} : {t}")
            if op in ("divsi", "remsi", "divui", "remui", "floordivsi", "ceildivsi", "ceildivui") and self.rng.random() < 0.8:
                b = self.fresh("c")
                lines.append(f"{ind}{b} = arith.constant {self.wrap(self.rng.choice([1, 2, 3, -1, -2, 7, 5, -3]), width(t))} : {t}")
            v = self.fresh()
            lines.append(f"{ind}{v} = arith.{op} {a}, {b} : {t}")
            pool.setdefault(t, []).append(v)
        elif k == "negf":
            t = self.rng.choice(c.float_types)
            a = self.pick(pool, t, lines, ind)
            v = self.fresh()
            lines.append(f"{ind}{v} = arith.negf {a} : {t}")
            pool.setdefault(t, []).append(v)
        elif k == "constpair":
            # every operand is a fresh constant, so that constant folders fire on boundary values
            if c.float_types and c.float_ops and self.rng.random() < 0.3:
                t = self.rng.choice(c.float_types)
                a, b = self.const(pool, t, lines, ind), self.const(pool, t, lines, ind)
                v = self.fresh()
                lines.append(f"{ind}{v} = arith.{self.rng.choice(c.float_ops)} {a}, {b} : {t}")
                pool.setdefault(t, []).append(v)
            elif self.rng.random() < 0.25:
                t = self.rng.choice(c.int_types)
                a, b = self.const(pool, t, lines, ind), self.const(pool, t, lines, ind)
                v = self.fresh()
                lines.append(f"{ind}{v} = arith.cmpi {self.rng.choice(c.cmpi_preds)}, {a}, {b} : {t}")
                pool.setdefault("i1", []).append(v)
            else:
                t = self.rng.choice(c.int_types)
                op = self.rng.choice(c.int_ops)
                a, b = self.const(pool, t, lines, ind), self.const(pool, t, lines, ind)
                if op in ("shli", "shrsi", "shrui"):
                    b = self.fresh("c")
                    lines.append(f"{ind}{b} = arith.constant {self.safe_shift_amount(t)} : {t}")
                v = self.fresh()
                lines.append(f"{ind}{v} = arith.{op} {a}, {b} : {t}")
                pool.setdefault(t, []).append(v)
        elif k == "reassoc":
            t = self.rng.choice(c.float_types)
            op = self.rng.choice(["addf", "mulf"])
            x = self.pick(pool, t, lines, ind)
            c1, c2 = self.const(pool, t, lines, ind), self.const(pool, t, lines, ind)
            fm = lambda: " fastmath<reassoc>" if self.rng.random() < 0.85 else (" fastmath<fast>" if self.rng.random() < 0.5 else "")
            v1, v2 = self.fresh(), self.fresh()
            l1 = (c1, x) if self.rng.random() < 0.5 else (x, c1)
            lines.append(f"{ind}{v1} = arith.{op} {l1[0]}, {l1[1]}{fm()} : {t}")
            l2 = (v1, c2) if self.rng.random() < 0.5 else (c2, v1)
            lines.append(f"{ind}{v2} = arith.{op} {l2[0]}, {l2[1]}{fm()} : {t}")
            pool.setdefault(t, []).append(v2)
            if self.rng.random() < 0.2:
                pool.setdefault(t, []).append(v1)   # a second use of the inner result blocks the pattern
        elif k == "cmpi_same":
            t = self.rng.choice(c.int_types)
            a = self.pick(pool, t, lines, ind)
            v = self.fresh()
            lines.append(f"{ind}{v} = arith.cmpi {self.rng.choice(c.cmpi_preds)}, {a}, {a} : {t}")
            pool.setdefault("i1", []).append(v)
        elif k == "select_const":
            v = self.fresh()
            r = self.rng.random()
            if r < 0.5:
                cnd = self.pick(pool, "i1", lines, ind)
                a, b = self.const(pool, "i1", lines, ind), self.const(pool, "i1", lines, ind)
                t = "i1"
            elif r < 0.8:
                t = self.rng.choice(c.int_types + c.float_types)
                cnd = self.const(pool, "i1", lines, ind)
                a, b = self.pick(pool, t, lines, ind), self.pick(pool, t, lines, ind)
            else:
                t = self.rng.choice(c.int_types + c.float_types)
                cnd = self.pick(pool, "i1", lines, ind)
                a = self.pick(pool, t, lines, ind)
                b = a
            lines.append(f"{ind}{v} = arith.select {cnd}, {a}, {b} : {t}")
            pool.setdefault(t, []).append(v)
        elif k == "cmpi":
            t = self.rng.choice(c.int_types)
            a, b = self.pick(pool, t, lines, ind), self.pick(pool, t, lines, ind)
            v = self.fresh()
            lines.append(f"{ind}{v} = arith.cmpi {self.rng.choice(c.cmpi_preds)}, {a}, {b} : {t}")
            pool.setdefault("i1", []).append(v)
        elif k == "float":
            t = self.rng.choice(c.float_types)
            a, b = self.pick(pool, t, lines, ind), self.pick(pool, t, lines, ind)
            v = self.fresh()
            lines.append(f"{ind}{v} = arith.{self.rng.choice(c.float_ops)} {a}, {b} : {t}")
            pool.setdefault(t, []).append(v)
        elif k == "cmpf":
            t = self.rng.choice(c.float_types)
            a, b = self.pick(pool, t, lines, ind), self.pick(pool, t, lines, ind)
            v = self.fresh()
            lines.append(f"{ind}{v} = arith.cmpf {self.rng.choice(CMPF)}, {a}, {b} : {t}")
            pool.setdefault("i1", []).append(v)
        elif k == "cast":
            cast = self.rng.choice(c.casts)
            ints = [x for x in c.int_types if x not in ("index",)]
            if cast == "index_cast" and "index" in c.int_types and ints:
                t = self.rng.choice([x for x in ints if x != "i1"] or ints)
                if self.rng.random() < 0.5:
                    a = self.pick(pool, t, lines, ind); v = self.fresh()
                    lines.append(f"{ind}{v} = arith.index_cast {a} : {t} to index")
                    pool.setdefault("index", []).append(v)
                else:
                    a = self.pick(pool, "index", lines, ind); v = self.fresh()
                    lines.append(f"{ind}{v} = arith.index_cast {a} : index to {t}")
                    pool.setdefault(t, []).append(v)
            elif cast in ("extsi", "extui", "trunci") and len(ints) >= 2:
                t1, t2 = self.rng.sample(ints, 2)
                if width(t1) > width(t2):
                    t1, t2 = t2, t1
                if width(t1) == width(t2):
                    return
                if cast == "trunci":
                    a = self.pick(pool, t2, lines, ind); v = self.fresh()
                    lines.append(f"{ind}{v} = arith.trunci {a} : {t2} to {t1}")
                    pool.setdefault(t1, []).append(v)
                else:
                    a = self.pick(pool, t1, lines, ind); v = self.fresh()
                    lines.append(f"{ind}{v} = arith.{cast} {a} : {t1} to {t2}")
                    pool.setdefault(t2, []).append(v)
        elif k == "select":
            t = self.rng.choice(c.int_types + c.float_types)
            cnd = self.pick(pool, "i1", lines, ind)
            a, b = self.pick(pool, t, lines, ind), self.pick(pool, t, lines, ind)
            v = self.fresh()
            lines.append(f"{ind}{v} = arith.select {cnd}, {a}, {b} : {t}")
            pool.setdefault(t, []).append(v)
        elif k == "ext":
            t = self.rng.choice(c.int_types + c.float_types)
            name = f"ext_{t}"
            self.ext_sigs[name] = t
            a = self.pick(pool, t, lines, ind)
            lines.append(f"{ind}func.call @{name}({a}) : ({t}) -> ()")
        elif k == "call":
            h = self.rng.choice(self.helpers)
            a, b = self.pick(pool, "i32", lines, ind), self.pick(pool, "i32", lines, ind)
            v = self.fresh()
            lines.append(f"{ind}{v} = func.call @{h}({a}, {b}) : (i32, i32) -> i32")
            pool.setdefault("i32", []).append(v)
            if c.externs:
                # make the callee's result observable (effect log) even if nothing else uses it
                self.ext_sigs["ext_i32"] = "i32"
                lines.append(f"{ind}func.call @ext_i32({v}) : (i32) -> ()")
        elif k == "if":
            cnd = self.pick(pool, "i1", lines, ind)
            tys = [self.rng.choice(c.int_types + c.float_types) for _ in range(self.rng.randint(0, 2))]
            res = [self.fresh() for _ in tys]
            hdr = (", ".join(res) + " = " if res else "") + f"scf.if {cnd}" + (" -> (" + ", ".join(tys) + ")" if tys else "") + " {"
            lines.append(ind + hdr)
            for branch in range(2):
                p2 = {t: list(vs) for t, vs in pool.items()}
                for _ in range(self.rng.randint(0, 3)):
                    self.stmt(p2, lines, ind + "  ", depth + 1)
                if c.observe_all:
                    self.observe(p2, pool, lines, ind + "  ", 0.6)
                ys = [self.pick(p2, t, lines, ind + "  ") for t in tys]
                if tys:
                    lines.append(f"{ind}  scf.yield " + ", ".join(ys) + " : " + ", ".join(tys))
                if branch == 0:
                    lines.append(ind + "} else {")
            lines.append(ind + "}")
            for r, t in zip(res, tys):
                pool.setdefault(t, []).append(r)
        elif k == "for":
            def bound(vals: list[int]) -> str:
                # only function arguments (kept small by `inputs`) may be symbolic bounds, so that
                # every loop is short by construction
                if c.symbolic_bounds and pool.get("__small_index") and self.rng.random() < 0.3:
                    return self.rng.choice(pool["__small_index"])
                v = self.fresh("c")
                lines.append(f"{ind}{v} = arith.constant {self.rng.choice(vals)} : index")
                return v
            lb, ub = bound([-2, 0, 0, 1, 3]), bound([-3, 0, 1, 2, 4, 5, 7])
            st = self.fresh("c")
            lines.append(f"{ind}{st} = arith.constant {self.rng.choice([1, 1, 2, 3])} : index")
            tys = [self.rng.choice(c.int_types + c.float_types) for _ in range(self.rng.randint(0, 2))]
            inits = [self.pick(pool, t, lines, ind) for t in tys]
            res = [self.fresh() for _ in tys]
            iv = self.fresh("i")
            accs = [self.fresh("acc") for _ in tys]
            hdr = (", ".join(res) + " = " if res else "") + f"scf.for {iv} = {lb} to {ub} step {st}"
            if tys:
                hdr += " iter_args(" + ", ".join(f"{a} = {i}" for a, i in zip(accs, inits)) + ") -> (" + ", ".join(tys) + ")"
            lines.append(ind + hdr + " {")
            p2 = {t: list(vs) for t, vs in pool.items()}
            p2.setdefault("index", []).append(iv)
            for a, t in zip(accs, tys):
                p2.setdefault(t, []).append(a)
            p2_before = {t: list(vs) for t, vs in p2.items()}
            for _ in range(self.rng.randint(1, 4)):
                self.stmt(p2, lines, ind + "  ", depth + 1)
            if c.observe_all:
                self.observe(p2, p2_before, lines, ind + "  ", 0.6)
            ys = [self.pick(p2, t, lines, ind + "  ") for t in tys]
            if tys:
                lines.append(f"{ind}  scf.yield " + ", ".join(ys) + " : " + ", ".join(tys))
            lines.append(ind + "}")
            for r, t in zip(res, tys):
                pool.setdefault(t, []).append(r)


    # ------------------------------------------------------------------ loop shapes (C16)
    def idx_const(self, lines: list[str], ind: str, vals: list[int]) -> str:
        v = self.fresh("c")
        lines.append(f"{ind}{v} = arith.constant {self.rng.choice(vals)} : index")
        return v

    def idx_bound(self, pool: dict[str, list[str]], lines: list[str], ind: str, vals: list[int], psym: float = 0.3) -> str:
        """a loop bound: a constant, or (only function arguments, kept small by `inputs`) a symbol"""
        if self.cfg.symbolic_bounds and pool.get("__small_index") and self.rng.random() < psym:
            return self.rng.choice(pool["__small_index"])
        return self.idx_const(lines, ind, vals)

    def ext_call(self, t: str, v: str, lines: list[str], ind: str) -> None:
        name = f"ext_{t}"
        self.ext_sigs[name] = t
        lines.append(f"{ind}func.call @{name}({v}) : ({t}) -> ()")

    def body_pool(self, pool: dict[str, list[str]]) -> dict[str, list[str]]:
        return {t: list(vs) for t, vs in pool.items()}

    def loop_header(self, pool: dict[str, list[str]], lines: list[str], ind: str, iv: str, lb: str, ub: str, st: str,
                    tys: list[str], inits: list[str] | None = None) -> tuple[list[str], list[str]]:
        """emit `scf.for` header line; returns (result names, iter-arg names)"""
        if inits is None:
            inits = [self.pick(pool, t, lines, ind) for t in tys]
        res = [self.fresh() for _ in tys]
        accs = [self.fresh("acc") for _ in tys]
        hdr = (", ".join(res) + " = " if res else "") + f"scf.for {iv} = {lb} to {ub} step {st}"
        if tys:
            hdr += " iter_args(" + ", ".join(f"{a} = {i}" for a, i in zip(accs, inits)) + ") -> (" + ", ".join(tys) + ")"
        lines.append(ind + hdr + " {")
        return res, accs

    def shape(self, kind: str, pool: dict[str, list[str]], lines: list[str], ind: str, depth: int) -> None:
        getattr(self, "shape_" + kind)(pool, lines, ind, depth)

    def shape_fold(self, pool: dict[str, list[str]], lines: list[str], ind: str, depth: int) -> None:
        """`scf.for` whose induction variable feeds a chain of addi/muli with loop-invariant operands
        (what scf-for-loop-range-folding matches); constants include 0 and negatives"""
        r = self.rng
        lb = self.idx_bound(pool, lines, ind, [-2, 0, 0, 1, 3])
        ub = self.idx_bound(pool, lines, ind, [-3, 0, 1, 2, 4, 5, 7])
        st = self.idx_const(lines, ind, [1, 1, 2, 3])
        nch = r.randint(1, 3)
        consts = []
        for _ in range(nch):
            q = r.random()
            if q < 0.55:
                consts.append(self.idx_const(lines, ind, [-3, -1, 0, 1, 1, 2, 2, 3, 5]))
            elif q < 0.8 and pool.get("index"):
                consts.append(r.choice(pool["index"]))
            else:
                a, b = self.idx_const(lines, ind, [-2, 0, 1, 2, 3]), self.pick(pool, "index", lines, ind)
                v = self.fresh()
                lines.append(f"{ind}{v} = arith.{r.choice(['addi', 'muli', 'subi'])} {a}, {b} : index")
                consts.append(v)
        tys = ["index"] if r.random() < 0.5 else []
        iv = self.fresh("i")
        res, accs = self.loop_header(pool, lines, ind, iv, lb, ub, st, tys)
        p2 = self.body_pool(pool)
        in2 = ind + "  "
        x = iv
        leak_iv = r.random() < 0.1
        # Where the chain lives and where its other operands are defined.  The pass may fold a link into the
        # loop range only if the other operand is defined OUTSIDE the loop: besides those, operands defined
        # directly in the loop body (loop-carried block argument, operation result) and — when the chain sits in
        # a region nested in the body (scf.if branch, inner scf.for) — in that nested region (operation result,
        # block arguments of the inner loop) are drawn.
        place = r.choice(["if_then", "if_else", "for"]) if r.random() < 0.4 else None
        body_vals = list(accs)
        if r.random() < 0.5:
            bl = self.fresh()
            lines.append(f"{in2}{bl} = arith.addi {r.choice(accs + consts)}, {self.idx_const(lines, in2, [1, 2, 3])} : index")
            body_vals.append(bl)
        nested_vals: list[str] = []
        inc = in2
        carrier = None
        if place is not None:
            carrier = self.fresh()
            inc = in2 + "  "
            if place == "for":
                k2, acc2 = self.fresh("i"), self.fresh("acc")
                l2, u2, s2 = self.idx_const(lines, in2, [0, 1]), self.idx_const(lines, in2, [1, 2, 3]), self.idx_const(lines, in2, [1, 2])
                i2 = r.choice(body_vals + consts)
                lines.append(f"{in2}{carrier} = scf.for {k2} = {l2} to {u2} step {s2} iter_args({acc2} = {i2}) -> (index) {{")
                nested_vals += [k2, acc2, acc2]
            else:
                cond = self.pick(p2, "i1", lines, in2)
                other = r.choice(body_vals + consts)
                lines.append(f"{in2}{carrier} = scf.if {cond} -> (index) {{")
                if place == "if_else":
                    lines.append(f"{inc}scf.yield {other} : index")
                    lines.append(f"{in2}}} else {{")
            if r.random() < 0.6:
                nl = self.fresh()
                lines.append(f"{inc}{nl} = arith.addi {r.choice(consts + body_vals)}, {self.idx_const(lines, inc, [1, 2, 3])} : index")
                nested_vals.append(nl)
        for cst in consts:
            v = self.fresh()
            op = r.choice(["addi", "muli", "muli", "subi", "subi"])
            q = r.random()
            if q < 0.25 and nested_vals:
                cst = r.choice(nested_vals)
            elif q < 0.4 and body_vals:
                cst = r.choice(body_vals)
            a, b = (x, cst) if r.random() < 0.5 else (cst, x)
            lines.append(f"{inc}{v} = arith.{op} {a}, {b} : index")
            if x != iv and place is None and r.random() < 0.1:
                p2.setdefault("index", []).append(x)     # a second use stops the folding chain there
            x = v
        if place is not None:
            if r.random() < 0.5:
                self.ext_call("index", x, lines, inc)
            lines.append(f"{inc}scf.yield {x} : index")
            if place == "if_then":
                lines.append(f"{in2}}} else {{")
                lines.append(f"{inc}scf.yield {other} : index")
            lines.append(f"{in2}}}")
            x = carrier
        if leak_iv:
            p2.setdefault("index", []).append(iv)
            if r.random() < 0.5:
                self.ext_call("index", iv, lines, in2)   # multi-use of the induction variable for sure
        p2.setdefault("index", []).append(x)
        self.ext_call("index", x, lines, in2)
        for a in accs:
            p2.setdefault("index", []).append(a)
        for _ in range(r.randint(0, 2)):
            self.stmt(p2, lines, in2, depth + 1)
        if tys:
            y = self.fresh()
            lines.append(f"{in2}{y} = arith.addi {accs[0]}, {x} : index")
            lines.append(f"{in2}scf.yield {y} : index")
        lines.append(ind + "}")
        for rr in res:
            pool.setdefault("index", []).append(rr)
            if depth == 0:
                self.force_returns.append((rr, "index"))

    def shape_unroll_perm(self, pool: dict[str, list[str]], lines: list[str], ind: str, depth: int) -> None:
        """constant-trip `scf.for` (what scf-for-loop-unroll matches) carrying 2–3 values whose yield
        permutes / forwards block arguments across slots (swap, rotate, earlier-into-later,
        fibonacci-style); the final values are observed (external call, and returned at top level)"""
        r = self.rng
        t = r.choice(["index", "index", "i32"])
        k = r.choice([2, 2, 3])
        lbv, stv = r.choice([0, 0, 1, -1]), r.choice([1, 1, 2])
        trips = r.choice([0, 1, 2, 3, 3, 4])
        lb = self.idx_const(lines, ind, [lbv])
        ub = self.idx_const(lines, ind, [lbv + trips * stv - (r.randrange(stv) if trips else 0)])
        st = self.idx_const(lines, ind, [stv])
        # distinct initial values: one from the pool (often a function argument), fresh constants for the rest
        inits = [self.pick(pool, t, lines, ind)]
        for j, cv in enumerate(r.sample([0, 1, 2, 5, 7, -3, 11], k - 1)):
            v = self.fresh("c")
            lines.append(f"{ind}{v} = arith.constant {cv} : {t}")
            inits.append(v)
        r.shuffle(inits)
        iv = self.fresh("i")
        res, accs = self.loop_header(pool, lines, ind, iv, lb, ub, st, [t] * k, inits=inits)
        in2 = ind + "  "
        sm = self.fresh()
        lines.append(f"{in2}{sm} = arith.addi {accs[0]}, {accs[1]} : {t}")
        nxt = sm
        if r.random() < 0.6:
            ivt = iv
            if t != "index":
                ivt = self.fresh()
                lines.append(f"{in2}{ivt} = arith.index_cast {iv} : index to {t}")
            nxt = self.fresh()
            lines.append(f"{in2}{nxt} = arith.addi {sm}, {ivt} : {t}")
        if r.random() < 0.3:
            self.ext_call(t, r.choice(accs + [nxt]), lines, in2)
        pat = r.choice(["swap", "rotl", "rotr", "fib", "fwd", "random", "random"])
        if pat == "swap":
            ys = list(accs); ys[0], ys[-1] = ys[-1], ys[0]
        elif pat == "rotl":
            ys = accs[1:] + accs[:1]
        elif pat == "rotr":
            ys = accs[-1:] + accs[:-1]
        elif pat == "fib":       # (next, cur[, prev]): every old value moves one slot later
            ys = [nxt] + accs[:-1]
        elif pat == "fwd":       # an earlier block argument forwarded into a later slot, rest recomputed / kept
            ys = list(accs)
            j = r.randrange(1, k)
            ys[j] = accs[r.randrange(0, j)]
            ys[0] = nxt
        else:
            ys = [r.choice(accs + [nxt]) for _ in range(k)]
        lines.append(f"{in2}scf.yield " + ", ".join(ys) + " : " + ", ".join([t] * k))
        lines.append(ind + "}")
        for rr in res:
            pool.setdefault(t, []).append(rr)
            self.ext_call(t, rr, lines, ind)
            if depth == 0:
                self.force_returns.append((rr, t))

    def shape_nest(self, pool: dict[str, list[str]], lines: list[str], ind: str, depth: int) -> None:
        """perfectly nested pair of `scf.for` (what scf-for-loop-flatten matches): either both
        induction variables feed one addi and the inner range is [0, outer step), or neither is used"""
        r = self.rng
        used = r.random() < 0.55
        in2, in3 = ind + "  ", ind + "    "
        if used:
            osv = r.choice([2, 3, 4, 4, 6, 8])
            divs = [d for d in range(1, osv + 1) if osv % d == 0]
            isv = r.choice(divs) if r.random() < 0.85 else r.choice([2, 3, 5])
            olb = self.idx_bound(pool, lines, ind, [0, 0, 1, -2, 4])
            oub = self.idx_bound(pool, lines, ind, [0, 5, 8, 9, 12, 16, -3, osv, 2 * osv, 2 * osv + 1])
            ost = self.idx_const(lines, ind, [osv])
            ilb = self.idx_const(lines, ind, [0] * 9 + [1])
            iub = self.idx_const(lines, ind, [osv] * 8 + [osv - 1, osv + 1])
            ist = self.idx_const(lines, ind, [isv])
        else:
            olb = self.idx_bound(pool, lines, ind, [0] * 6 + [1, -1], psym=0.1)
            oub = self.idx_bound(pool, lines, ind, [0, 1, 3, 4, 5, 7, -2])
            ost = self.idx_const(lines, ind, [1, 1, 2, 3, 5])
            ilb = self.idx_const(lines, ind, [0, 0, 1, 2, -1])
            iub = self.idx_const(lines, ind, [0, 3, 4, 7, 8, -2])
            ist = self.idx_const(lines, ind, [1, 1, 2, 3])
        ntys = r.choice([0, 0, 1, 2, 2, 3])
        t0 = r.choice(["index", "i32"])
        tys = [t0 if r.random() < 0.8 else r.choice(["index", "i32"]) for _ in range(ntys)]
        o, i = self.fresh("i"), self.fresh("i")
        # distinct initial values where possible (a lost exchange of equal values cannot be seen)
        oinits = []
        for j, t in enumerate(tys):
            if j == 0 or r.random() < 0.3:
                oinits.append(self.pick(pool, t, lines, ind))
            else:
                v = self.fresh("c")
                lines.append(f"{ind}{v} = arith.constant {[3, 11, -5, 20][j]} : {t}")
                oinits.append(v)
        ores, oaccs = self.loop_header(pool, lines, ind, o, olb, oub, ost, tys, inits=oinits)
        same = len(set(tys)) <= 1
        # the inner loop is initialised with the outer block arguments position by position (what the pass may
        # flatten), in another order, or with one of them twice; only a same-typed exchange is well-typed
        q = r.random()
        if q < 0.65 or not same or ntys < 2:
            iinits = list(oaccs)
        elif q < 0.92:
            iinits = list(oaccs)
            while iinits == list(oaccs):
                r.shuffle(iinits)
        else:
            iinits = [r.choice(oaccs) for _ in oaccs]
        ires, iaccs = self.loop_header(pool, lines, in2, i, ilb, iub, ist, tys, inits=iinits)
        p3 = self.body_pool(pool)
        if used:
            k = self.fresh()
            a, b = (o, i) if r.random() < 0.5 else (i, o)
            lines.append(f"{in3}{k} = arith.{'addi' if r.random() < 0.92 else 'muli'} {a}, {b} : index")
            p3.setdefault("index", []).append(k)
            if r.random() < 0.08:
                p3.setdefault("index", []).append(r.choice([o, i]))
            self.ext_call("index", k, lines, in3)
        else:
            self.ext_call("index", self.pick(p3, "index", lines, in3), lines, in3)
        for a, t in zip(iaccs, tys):
            p3.setdefault(t, []).append(a)
        for _ in range(r.randint(0, 2)):
            self.stmt(p3, lines, in3, depth + 2)
        if tys:
            if r.random() < 0.5:
                # every carried value gets its own treatment, so that exchanged slots give different results
                ys = []
                for j, (a, t) in enumerate(zip(iaccs, tys)):
                    cv, y = self.fresh("c"), self.fresh()
                    lines.append(f"{in3}{cv} = arith.constant {[1, 2, 7][j]} : {t}")
                    lines.append(f"{in3}{y} = arith.{['addi', 'muli', 'subi'][j]} {cv}, {a} : {t}")
                    ys.append(y)
            else:
                ys = [self.pick(p3, t, lines, in3) if r.random() < 0.6 else a for a, t in zip(iaccs, tys)]
            lines.append(f"{in3}scf.yield " + ", ".join(ys) + " : " + ", ".join(tys))
        lines.append(in2 + "}")
        if tys:
            ys = list(ires)
            if same and ntys >= 2 and r.random() < 0.15:
                r.shuffle(ys)
            lines.append(f"{in2}scf.yield " + ", ".join(ys) + " : " + ", ".join(tys))
        lines.append(ind + "}")
        for rr, t in zip(ores, tys):
            pool.setdefault(t, []).append(rr)
            # the final carried values are observed (external call, and returned at top level)
            self.ext_call(t, rr, lines, ind)
            if depth == 0:
                self.force_returns.append((rr, t))

    def shape_while(self, pool: dict[str, list[str]], lines: list[str], ind: str, depth: int) -> None:
        """counting `scf.while` (terminates by construction: positive constant increment, small bound)"""
        r = self.rng
        k0 = self.idx_bound(pool, lines, ind, [-1, 0, 0, 1, 2])
        n = self.idx_bound(pool, lines, ind, [-2, 0, 1, 3, 4, 6])
        one = self.idx_const(lines, ind, [1, 1, 2])
        t = r.choice([x for x in self.cfg.int_types if x != "i1"] + self.cfg.float_types)
        a0 = self.pick(pool, t, lines, ind)
        rk, ra = self.fresh(), self.fresh()
        k, a, cnd = self.fresh("i"), self.fresh("acc"), self.fresh()
        in2 = ind + "  "
        lines.append(f"{ind}{rk}, {ra} = scf.while ({k} = {k0}, {a} = {a0}) : (index, {t}) -> (index, {t}) {{")
        lines.append(f"{in2}{cnd} = arith.cmpi slt, {k}, {n} : index")
        lines.append(f"{in2}scf.condition({cnd}) {k}, {a} : index, {t}")
        lines.append(ind + "} do {")
        k2, a2 = self.fresh("i"), self.fresh("acc")
        lines.append(f"{ind}^wb{self.n}({k2}: index, {a2}: {t}):")
        p2 = self.body_pool(pool)
        p2.setdefault("index", []).append(k2)
        p2.setdefault(t, []).append(a2)
        for _ in range(r.randint(1, 3)):
            self.stmt(p2, lines, in2, depth + 1)
        a3 = self.pick(p2, t, lines, in2)
        k3 = self.fresh()
        lines.append(f"{in2}{k3} = arith.addi {k2}, {one} : index")
        lines.append(f"{in2}scf.yield {k3}, {a3} : index, {t}")
        lines.append(ind + "}")
        pool.setdefault("index", []).append(rk)
        pool.setdefault(t, []).append(ra)

    PURE_INT = ["addi", "subi", "muli", "andi", "ori", "xori", "divsi", "remsi", "floordivsi", "ceildivsi", "divui",
                "remui", "minsi", "maxsi"]

    def pure_op(self, t: str, p: dict[str, list[str]], lines: list[str], ind: str, zero_ok: bool = True) -> str:
        """one side-effect-free integer op on values of `p`; divisors may be zero / symbolic"""
        r = self.rng
        DIV = ("divsi", "remsi", "floordivsi", "ceildivsi", "divui", "remui")
        op = r.choice(DIV) if r.random() < 0.45 else r.choice(self.PURE_INT)
        a, b = self.pick(p, t, lines, ind), self.pick(p, t, lines, ind)
        if op in DIV and r.random() < 0.6:
            b = self.fresh("c")
            lines.append(f"{ind}{b} = arith.constant {r.choice([0, 0, 0, 1, 2, 3, -1, -2, 7] if zero_ok else [1, 2, 3, 7])} : {t}")
        v = self.fresh()
        lines.append(f"{ind}{v} = arith.{op} {a}, {b} : {t}")
        return v

    def shape_licm(self, pool: dict[str, list[str]], lines: list[str], ind: str, depth: int) -> None:
        """loop (often zero-trip) whose body has pure ops on values defined outside (what licm moves),
        pure ops depending on the induction variable, and effects"""
        r = self.rng
        t = r.choice(["index", "i32", "i8"])
        lb = self.idx_bound(pool, lines, ind, [-2, 0, 0, 1, 3])
        ub = self.idx_bound(pool, lines, ind, [-3, 0, 0, 1, 2, 4])
        st = self.idx_const(lines, ind, [1, 1, 2, 3])
        # make sure there are outside values of the type
        for _ in range(2):
            if len(pool.get(t, [])) < 2:
                self.const(pool, t, lines, ind)
        tys = [t] if r.random() < 0.6 else []
        iv = self.fresh("i")
        res, accs = self.loop_header(pool, lines, ind, iv, lb, ub, st, tys)
        in2 = ind + "  "
        outer = {t: list(pool.get(t, []))}
        p2 = self.body_pool(pool)
        inv: list[str] = []
        for _ in range(r.randint(1, 3)):
            v = self.pure_op(t, outer, lines, in2)
            outer[t].append(v)
            inv.append(v)
            p2.setdefault(t, []).append(v)
        if r.random() < 0.3 and pool.get("i1"):
            # invariant computation nested in a conditional inside the loop
            cnd = r.choice(pool["i1"])
            rv = self.fresh()
            lines.append(f"{in2}{rv} = scf.if {cnd} -> ({t}) {{")
            w = self.pure_op(t, {t: list(outer[t])}, lines, in2 + "  ")
            lines.append(f"{in2}  scf.yield {w} : {t}")
            lines.append(in2 + "} else {")
            lines.append(f"{in2}  scf.yield {r.choice(outer[t])} : {t}")
            lines.append(in2 + "}")
            p2.setdefault(t, []).append(rv)
            inv.append(rv)
        p2.setdefault("index", []).append(iv)
        for a in accs:
            p2.setdefault(t, []).append(a)
        self.ext_call(t, r.choice(inv), lines, in2)
        for _ in range(r.randint(0, 3)):
            self.stmt(p2, lines, in2, depth + 1)
        if tys:
            y = self.fresh()
            lines.append(f"{in2}{y} = arith.addi {accs[0]}, {r.choice(inv)} : {t}")
            lines.append(f"{in2}scf.yield {y} : {t}")
        lines.append(ind + "}")
        for rr in res:
            pool.setdefault(t, []).append(rr)

    def shape_hoist_if(self, pool: dict[str, list[str]], lines: list[str], ind: str, depth: int, nest: int = 0) -> str | None:
        """`scf.if` whose two branches contain only side-effect-free operations (what
        control-flow-hoist moves in front of the conditional)"""
        r = self.rng
        t = r.choice(["index", "i32", "i8"])
        cnd = self.pick(pool, "i1", lines, ind)
        for _ in range(2):
            if len(pool.get(t, [])) < 2:
                self.const(pool, t, lines, ind)
        rv = self.fresh()
        lines.append(f"{ind}{rv} = scf.if {cnd} -> ({t}) {{")
        in2 = ind + "  "
        for branch in range(2):
            p2 = {t: list(pool.get(t, [])), "i1": list(pool.get("i1", []))}
            last = None
            for _ in range(r.randint(0, 3)):
                if nest < 1 and r.random() < 0.2 and p2["i1"]:
                    last = self.shape_hoist_if(p2, lines, in2, depth + 1, nest + 1)
                    if last is not None and last in p2.get(t, []):
                        pass
                else:
                    last = self.pure_op(t, p2, lines, in2)
                    p2[t].append(last)
            y = r.choice(p2[t])
            lines.append(f"{in2}scf.yield {y} : {t}")
            if branch == 0:
                lines.append(ind + "} else {")
        lines.append(ind + "}")
        pool.setdefault(t, []).append(rv)
        return rv

    # ------------------------------------------------------------------ CFG shapes (top level only)
    def cfg_diamond(self, pool: dict[str, list[str]], lines: list[str]) -> None:
        c = self.cfg
        cnd = self.pick(pool, "i1", lines, "  ")
        t = self.rng.choice(c.int_types + c.float_types)
        bt, be, bm = self.fresh_block(), self.fresh_block(), self.fresh_block()
        xa, xb = self.pick(pool, t, lines, "  "), self.pick(pool, t, lines, "  ")
        lines.append(f"  cf.cond_br {cnd}, {bt}({xa} : {t}), {be}({xb} : {t})")
        outs = []
        for blk in (bt, be):
            arg = self.fresh("ba")
            lines.append(f"{blk}({arg}: {t}):")
            p2 = {k: list(v) for k, v in pool.items()}
            p2.setdefault(t, []).append(arg)
            for _ in range(self.rng.randint(0, 3)):
                self.stmt(p2, lines, "  ", 1)
            r = self.pick(p2, t, lines, "  ")
            lines.append(f"  cf.br {bm}({r} : {t})")
        m = self.fresh("ba")
        lines.append(f"{bm}({m}: {t}):")
        pool.setdefault(t, []).append(m)

    def cfg_same_succ(self, pool: dict[str, list[str]], lines: list[str]) -> None:
        """cond_br whose two edges reach the same block (directly or through pass-through blocks)"""
        c = self.cfg
        cnd = self.pick(pool, "i1", lines, "  ")
        t = self.rng.choice(c.int_types + c.float_types)
        xa, xb = self.pick(pool, t, lines, "  "), self.pick(pool, t, lines, "  ")
        bm = self.fresh_block()
        shape = self.rng.randrange(3)
        if shape == 0:
            lines.append(f"  cf.cond_br {cnd}, {bm}({xa} : {t}), {bm}({xb} : {t})")
        else:
            b1, b2 = self.fresh_block(), self.fresh_block()
            p1, p2 = self.fresh("ba"), self.fresh("ba")
            lines.append(f"  cf.cond_br {cnd}, {b1}({xa} : {t}), {b2}({xb} : {t})")
            lines.append(f"{b1}({p1}: {t}):")
            lines.append(f"  cf.br {bm}({p1 if shape == 1 else xb} : {t})")
            lines.append(f"{b2}({p2}: {t}):")
            if shape == 2 and self.rng.random() < 0.5:
                self.stmt({k: list(v) for k, v in pool.items()}, lines, "  ", 1)
            lines.append(f"  cf.br {bm}({p2} : {t})")
        m = self.fresh("ba")
        lines.append(f"{bm}({m}: {t}):")
        if self.rng.random() < 0.5 and c.cf_extras_select:
            # a use of the condition after the join (truth propagation must not touch it)
            v = self.fresh()
            lines.append(f"  {v} = arith.select {cnd}, {m}, {xa} : {t}")
            pool.setdefault(t, []).append(v)
        pool.setdefault(t, []).append(m)

    def cfg_loop(self, pool: dict[str, list[str]], lines: list[str]) -> None:
        c = self.cfg
        t = self.rng.choice([x for x in c.int_types if x != "i1"] + c.float_types)
        bh, bb, bx = self.fresh_block(), self.fresh_block(), self.fresh_block()
        i0, n, one = self.fresh("c"), self.fresh("c"), self.fresh("c")
        lines.append(f"  {i0} = arith.constant {self.rng.choice([0, 0, 1, -1])} : index")
        lines.append(f"  {n} = arith.constant {self.rng.choice([0, 1, 3, 4, 6])} : index")
        lines.append(f"  {one} = arith.constant {self.rng.choice([1, 1, 2])} : index")
        acc0 = self.pick(pool, t, lines, "  ")
        lines.append(f"  cf.br {bh}({i0}, {acc0} : index, {t})")
        i, acc, cnd = self.fresh("i"), self.fresh("acc"), self.fresh()
        lines.append(f"{bh}({i}: index, {acc}: {t}):")
        lines.append(f"  {cnd} = arith.cmpi slt, {i}, {n} : index")
        lines.append(f"  cf.cond_br {cnd}, {bb}, {bx}")
        lines.append(f"{bb}:")
        p2 = {k: list(v) for k, v in pool.items()}
        p2.setdefault("index", []).append(i)
        p2.setdefault(t, []).append(acc)
        for _ in range(self.rng.randint(1, 4)):
            self.stmt(p2, lines, "  ", 1)
        acc2 = self.pick(p2, t, lines, "  ")
        i2 = self.fresh()
        lines.append(f"  {i2} = arith.addi {i}, {one} : index")
        lines.append(f"  cf.br {bh}({i2}, {acc2} : index, {t})")
        lines.append(f"{bx}:")
        pool.setdefault(t, []).append(acc)

    # ------------------------------------------------------------------ whole program
    def helper(self) -> str:
        name = f"helper{len(self.helpers)}"
        lines: list[str] = []
        pool = {"i32": ["%h0", "%h1"]}
        saved = (self.cfg.calls, self.cfg.cf)
        self.cfg.calls = False
        for _ in range(self.rng.randint(1, 4)):
            self.stmt(pool, lines, "  ", 1)
        self.cfg.calls = saved[0]
        r = self.pick(pool, "i32", lines, "  ")
        body = "\n".join(lines)
        self.helpers.append(name)
        return f"func.func @{name}(%h0: i32, %h1: i32) -> i32 {{\n{body}\n  func.return {r} : i32\n}}\n"

    def recursive_helper(self) -> str:
        """A directly recursive function (decreasing counter) in which values defined before the
        recursive call are used after it; scf.if or cf.cond_br flavour.  Bounded depth: callers pass
        a small non-negative first argument (masked with `andi 3`)."""
        name = f"helper{len(self.helpers)}"
        op1 = self.rng.choice(["addi", "muli", "xori", "subi"])
        op2 = self.rng.choice(["addi", "subi", "xori", "muli"])
        k = self.rng.choice([1, 2, 3, 5, 7])
        pre = (f"  %z = arith.constant 0 : i32\n  %o = arith.constant 1 : i32\n  %k = arith.constant {k} : i32\n"
               f"  %m = arith.constant 3 : i32\n  %n = arith.andi %h0, %m : i32\n"
               f"  %done = arith.cmpi eq, %n, %z : i32\n")
        rec = (f"    %n1 = arith.subi %n, %o : i32\n    %x = arith.{op1} %h1, %k : i32\n"
               f"    %rr = func.call @{name}(%n1, %x) : (i32, i32) -> i32\n"
               f"    %y = arith.{op2} %rr, %x : i32\n    %y2 = arith.addi %y, %n : i32\n")
        if self.cfg.scf_if and self.rng.random() < 0.5:
            body = (pre + "  %r = scf.if %done -> (i32) {\n    scf.yield %h1 : i32\n  } else {\n" + rec
                    + "    scf.yield %y2 : i32\n  }\n  func.return %r : i32\n")
        else:
            body = (pre + "  cf.cond_br %done, ^base, ^rec\n^base:\n  func.return %h1 : i32\n^rec:\n"
                    + rec.replace("    ", "  ") + "  func.return %y2 : i32\n")
        self.helpers.append(name)
        return f"func.func @{name}(%h0: i32, %h1: i32) -> i32 {{\n{body}}}\n"

    def program(self) -> dict[str, Any]:
        c = self.cfg
        self.n = 0; self.nb = 0; self.ext_sigs = {}; self.helpers = []
        self.force_returns = []
        self.seen_ints = {}
        funcs: list[str] = []
        if c.calls and self.rng.random() < 0.4:
            funcs.append(self.helper())
        if c.calls and (c.cf or c.scf_if) and self.rng.random() < 0.35:
            funcs.append(self.recursive_helper())
        all_t = c.int_types + c.float_types
        arg_tys = [self.rng.choice(all_t) for _ in range(self.rng.randint(1, 4))]
        args = [f"%a{i}" for i in range(len(arg_tys))]
        pool: dict[str, list[str]] = {}
        for a, t in zip(args, arg_tys):
            pool.setdefault(t, []).append(a)
            if t == "index":
                pool.setdefault("__small_index", []).append(a)
        lines: list[str] = []
        nst = self.rng.randint(2, c.max_stmts)
        for _ in range(nst):
            r = self.rng.random()
            if c.cf and c.cf_extras and r < 0.06:
                self.cfg_same_succ(pool, lines)
            elif c.cf and r < 0.12:
                self.cfg_diamond(pool, lines)
            elif c.cf and r < 0.22:
                self.cfg_loop(pool, lines)
            else:
                self.stmt(pool, lines, "  ", 0)
        if c.observe_all:
            self.observe(pool, {t: list(vs) for t, vs in zip(arg_tys, [[a] for a in args])}, lines, "  ", 1.0)
        ret_tys = [self.rng.choice(all_t) for _ in range(self.rng.randint(1, 3))]
        rets = [self.pick(pool, t, lines, "  ") for t in ret_tys]
        for v, t in self.force_returns[-4:]:     # only filled by C16 loop shapes (`loop_shapes` non-empty)
            rets.append(v)
            ret_tys.append(t)
        sig = ", ".join(f"{a}: {t}" for a, t in zip(args, arg_tys))
        main = (f"func.func @main({sig}) -> ({', '.join(ret_tys)}) {{\n" + "\n".join(lines)
                + f"\n  func.return {', '.join(rets)} : {', '.join(ret_tys)}\n}}\n")
        funcs.append(main)
        for name, t in sorted(self.ext_sigs.items()):
            funcs.append(f"func.func private @{name}({t}) -> ()\n")
        return {"text": "builtin.module {\n" + "".join(funcs) + "}\n", "arg_types": arg_tys, "ret_types": ret_tys}

    def inputs(self, arg_tys: list[str], n: int) -> list[list[Any]]:
        out = []
        for _ in range(n):
            vec: list[Any] = []
            for t in arg_tys:
                if t in ("f32", "f64"):
                    v = self.rng.choice([0.0, -0.0, 1.0, -1.5, 2.0, 1e10, math.inf, -math.inf, math.nan, 0.1, 16777216.0, self.rng.uniform(-100, 100)])
                    if t == "f32" and not math.isnan(v) and not math.isinf(v):
                        v = struct.unpack("<f", struct.pack("<f", v))[0]
                    vec.append(v)
                elif t == "index":
                    vec.append(self.rng.choice([-3, -1, 0, 1, 2, 3, 5, 8, 10]))
                else:
                    w = width(t)
                    lo, hi = -(1 << (w - 1)), (1 << (w - 1)) - 1
                    vec.append(self.rng.choice([lo, hi, -1, 0, 1, 2, 3, self.rng.randint(lo, hi), self.rng.randint(max(lo, -20), min(hi, 20))]) if w > 1 else self.rng.choice([0, -1]))
            out.append(vec)
        return out


def parse_module(text: str) -> Any:
    from xdsl.context import Context
    return parse_module_ctx(text)[0]


def parse_module_ctx(text: str) -> tuple[Any, Any]:
    """(module, context); the context also knows affine / memref / symref (C16 programs)"""
    from xdsl.context import Context
    from xdsl.dialects import affine, arith, builtin, cf, func, memref, scf, symref
    from xdsl.parser import Parser

    ctx = Context()
    for d in (builtin.Builtin, arith.Arith, func.Func, cf.Cf, scf.Scf, affine.Affine, memref.MemRef, symref.Symref):
        ctx.load_dialect(d)
    m = Parser(ctx, text).parse_module()
    m.verify()
    return m, ctx


# ------------------------------------------------------------------------------------------------
# C16: affine programs (lower-affine) and symref programs (frontend-desymrefy)
# ------------------------------------------------------------------------------------------------

# -- affine expressions as plain trees: ("c", v) | ("d", p) | ("s", p) | (kind, l, r), kind ∈ AFF_KINDS ------

AFF_KINDS = ("+", "*", "mod", "floordiv", "ceildiv")


def aff_text(e: tuple) -> str:
    """text of the expression inside `affine_map<… -> (…)>`"""
    if e[0] == "c":
        return str(e[1])
    if e[0] in ("d", "s"):
        return f"{e[0]}{e[1]}"
    return f"({aff_text(e[1])} {e[0]} {aff_text(e[2])})"


def aff_eval(e: tuple, dims: list[int], syms: list[int]) -> tuple[int, bool] | None:
    """(value in the affine dialect, some `mod` had a negative left operand); None = undefined
    (a `mod`/`floordiv`/`ceildiv` by a non-positive value).  Unbounded integers."""
    if e[0] == "c":
        return e[1], False
    if e[0] == "d":
        return dims[e[1]], False
    if e[0] == "s":
        return syms[e[1]], False
    a, b = aff_eval(e[1], dims, syms), aff_eval(e[2], dims, syms)
    if a is None or b is None:
        return None
    (x, nx), (y, ny) = a, b
    neg = nx or ny
    if e[0] == "+":
        return x + y, neg
    if e[0] == "*":
        return x * y, neg
    if y <= 0:
        return None
    if e[0] == "mod":
        return x % y, neg or x < 0
    if e[0] == "floordiv":
        return x // y, neg
    return -((-x) // y), neg


def aff_prefix_of_xdsl(e: Any) -> str:
    """prefix form (protocol of the Lean model `lower_affine`) of a parsed xDSL `AffineExpr` — the
    tree the pass is given, after whatever the parser simplified"""
    from xdsl.ir.affine import AffineBinaryOpExpr, AffineBinaryOpKind, AffineConstantExpr, AffineDimExpr, AffineSymExpr

    if isinstance(e, AffineConstantExpr):
        return str(e.value)
    if isinstance(e, AffineDimExpr):
        return f"d{e.position}"
    if isinstance(e, AffineSymExpr):
        return f"s{e.position}"
    assert isinstance(e, AffineBinaryOpExpr)
    k = {AffineBinaryOpKind.Add: "+", AffineBinaryOpKind.Mul: "*", AffineBinaryOpKind.Mod: "mod",
         AffineBinaryOpKind.FloorDiv: "floordiv", AffineBinaryOpKind.CeilDiv: "ceildiv"}[e.kind]
    return f"{k} {aff_prefix_of_xdsl(e.lhs)} {aff_prefix_of_xdsl(e.rhs)}"


class AffineBindGen:
    """Programs that show which SSA operand every dimension / symbol of an affine map is bound to.

    kind "apply": one `affine.apply` whose map has `nd` dimensions and `ns` symbols (all shapes with
    nd, ns ≤ 3) and mentions every one of them in a term with its own weight (powers of 16, random
    signs; the inputs are small, so two different bindings of operands to positions give different
    values); the operands are a permutation of the function arguments; the result is passed to an
    external call and returned.  Terms may wrap the variable in `+ c`, `floordiv`/`ceildiv`/`mod` by a
    positive constant; the sum is associated at random.
    kind "mem": a non-square 2-D memref filled with distinct values, then `affine.store` / `affine.load`
    through two-result maps that permute / offset the index operands.
    The programs carry their own input vectors (`vecs`: distinct small values; non-negative when the
    map contains `mod`, in bounds for "mem")."""

    def __init__(self, rng: Any):
        self.rng = rng

    def linear(self, nd: int, ns: int, allow_mod: bool = True) -> tuple:
        r = self.rng
        leaves = [("d", i) for i in range(nd)] + [("s", i) for i in range(ns)]
        ws = [16 ** i for i in range(len(leaves))]
        r.shuffle(ws)
        terms: list[tuple] = []
        for leaf, w in zip(leaves, ws):
            x: tuple = leaf
            k = r.random()
            if k < 0.15:
                x = ("+", x, ("c", r.choice([1, 2, -1])))
            elif k < 0.25:
                x = (r.choice(["floordiv", "ceildiv"]), x, ("c", r.choice([2, 3])))
            elif k < 0.32 and allow_mod:
                x = ("mod", x, ("c", r.choice([5, 7, 11])))
            w = w if r.random() < 0.75 else -w
            terms.append(("*", x, ("c", w)) if r.random() < 0.8 or w < 0 else ("*", ("c", w), x))
        if r.random() < 0.4 or not terms:
            terms.append(("c", r.choice([0, 1, 3, -5])))
        r.shuffle(terms)
        while len(terms) > 1:
            i = r.randrange(len(terms) - 1)
            terms[i:i + 2] = [("+", terms[i], terms[i + 1])]
        return terms[0]

    def program(self) -> dict[str, Any]:
        return self.mem_program() if self.rng.random() < 0.25 else self.apply_program()

    def random_expr(self, nd: int, ns: int, depth: int) -> tuple:
        """any expression over the given dimensions / symbols (constants on the right of * mod floordiv ceildiv)"""
        r = self.rng
        leaves = [("d", i) for i in range(nd)] + [("s", i) for i in range(ns)]
        if depth <= 0 or r.random() < 0.2:
            if leaves and r.random() < 0.85:
                return r.choice(leaves)
            return ("c", r.choice([0, 1, 2, 3, 5, 7, -1, -3]))
        k = r.choice(["+", "+", "+", "*", "mod", "floordiv", "ceildiv"])
        a = self.random_expr(nd, ns, depth - 1)
        if k == "+":
            return ("+", a, self.random_expr(nd, ns, depth - 1))
        if k == "*":
            return ("*", a, ("c", r.choice([2, 3, -1, -2, 4])))
        return (k, a, ("c", r.choice([1, 2, 3, 4, 5, 8])))

    def apply_program(self, shape: tuple[int, int] | None = None, e: tuple | None = None) -> dict[str, Any]:
        r = self.rng
        nd, ns = shape or r.choice([(a, b) for a in range(4) for b in range(4) if a + b])
        k = nd + ns
        e = e or self.linear(nd, ns)
        has_mod = " mod " in aff_text(e)
        nargs = k + (1 if r.random() < 0.3 else 0)
        order = r.sample(range(nargs), k)                      # operand j of the apply is %a{order[j]}
        dims = ", ".join(f"d{i}" for i in range(nd))
        syms = "[" + ", ".join(f"s{i}" for i in range(ns)) + "]" if ns else ""
        lines = [f'  %v = "affine.apply"({", ".join(f"%a{i}" for i in order)}) <{{"map" = affine_map<({dims}){syms} -> ({aff_text(e)})>}}> : ({", ".join(["index"] * k)}) -> index',
                 "  func.call @ext_index(%v) : (index) -> ()"]
        sig = ", ".join(f"%a{i}: index" for i in range(nargs))
        text = ("builtin.module {\nfunc.func @main(" + sig + ") -> (index) {\n" + "\n".join(lines)
                + "\n  func.return %v : index\n}\nfunc.func private @ext_index(index) -> ()\n}\n")
        vecs = [r.sample(range(0, 13), nargs) for _ in range(3)]
        vecs.append(r.sample(range(0 if has_mod else -6, 13), nargs))
        return {"text": text, "arg_types": ["index"] * nargs, "ret_types": ["index"], "vecs": vecs,
                "expr": e, "shape": (nd, ns), "order": order}

    def mem_program(self) -> dict[str, Any]:
        r = self.rng
        R, C = r.choice([(2, 3), (3, 2), (2, 4), (4, 3), (3, 5)])
        ty = f"memref<{R}x{C}xindex>"

        def access(x: str, y: str, ox: int, oy: int) -> tuple[str, str]:
            """(operands, map) addressing cell [x + ox, y + oy]"""
            ex = f"(d{{}} + {ox})" if ox else "d{}"
            ey = f"(d{{}} + {oy})" if oy else "d{}"
            if r.random() < 0.5:
                return f"{x}, {y}", f"affine_map<(d0, d1) -> ({ex.format(0)}, {ey.format(1)})>"
            return f"{y}, {x}", f"affine_map<(d0, d1) -> ({ex.format(1)}, {ey.format(0)})>"

        ox, oy = r.choice([0, 0, 1]), r.choice([0, 0, 1])
        sx, sy = r.choice([0, 1]), r.choice([0, 1])
        so, sm = access("%a0", "%a1", sx, sy)
        lo, lm = access("%a0", "%a1", ox, oy)
        lo2, lm2 = access("%a1", "%a0", 0, 0)        # cell [a1, a0]: in bounds only for small values (else the source is undefined → excluded)
        lines = [
            f'  %m = "memref.alloc"() <{{operandSegmentSizes = array<i32: 0, 0>}}> : () -> {ty}',
            f'  "affine.for"() <{{"lowerBoundMap" = affine_map<() -> (0)>, "upperBoundMap" = affine_map<() -> ({R})>, "step" = 1 : index, operandSegmentSizes = array<i32: 0, 0, 0>}}> ({{',
            "  ^b0(%i: index):",
            f'    "affine.for"() <{{"lowerBoundMap" = affine_map<() -> (0)>, "upperBoundMap" = affine_map<() -> ({C})>, "step" = 1 : index, operandSegmentSizes = array<i32: 0, 0, 0>}}> ({{',
            "    ^b1(%j: index):",
            '      %c = "affine.apply"(%i, %j) <{"map" = affine_map<(d0, d1) -> (((d0 * 10) + d1) + 100)>}> : (index, index) -> index',
            f'      "affine.store"(%c, %m, %i, %j) <{{"map" = affine_map<(d0, d1) -> (d0, d1)>}}> : (index, {ty}, index, index) -> ()',
            '      "affine.yield"() : () -> ()',
            "    }) : () -> ()",
            '    "affine.yield"() : () -> ()',
            "  }) : () -> ()",
            f'  "affine.store"(%a2, %m, {so}) <{{"map" = {sm}}}> : (index, {ty}, index, index) -> ()',
            f'  %l = "affine.load"(%m, {lo}) <{{"map" = {lm}}}> : ({ty}, index, index) -> index',
            "  func.call @ext_index(%l) : (index) -> ()",
        ]
        rets = ["%l"]
        if r.random() < 0.3:
            lines.append(f'  %l2 = "affine.load"(%m, {lo2}) <{{"map" = {lm2}}}> : ({ty}, index, index) -> index')
            rets.append("%l2")
        text = ("builtin.module {\nfunc.func @main(%a0: index, %a1: index, %a2: index) -> (" + ", ".join(["index"] * len(rets)) + ") {\n"
                + "\n".join(lines) + "\n  func.return " + ", ".join(rets) + " : " + ", ".join(["index"] * len(rets))
                + "\n}\nfunc.func private @ext_index(index) -> ()\n}\n")
        mx, my = max(ox, sx), max(oy, sy)
        cells = [(x, y) for x in range(R - mx) for y in range(C - my)]
        vecs = [[x, y, r.randint(-9, 9)] for x, y in r.sample(cells, min(4, len(cells)))]
        return {"text": text, "arg_types": ["index"] * 3, "ret_types": ["index"] * len(rets), "vecs": vecs}


class AffineGen:
    """func with affine.for (constant bounds, iter_args, nesting), affine.apply over random
    expressions (add, mul/mod/floordiv/ceildiv by constants), affine.load/store on one small static
    memref, external calls.  Everything index-typed."""

    def __init__(self, rng: Any):
        self.rng = rng
        self.n = 0

    def fresh(self, p: str = "v") -> str:
        self.n += 1
        return f"%{p}{self.n}"

    def expr(self, nd: int, ns: int, depth: int) -> str:
        r = self.rng
        leaves = [f"d{i}" for i in range(nd)] + [f"s{i}" for i in range(ns)]
        if depth <= 0 or r.random() < 0.25:
            if leaves and r.random() < 0.8:
                return r.choice(leaves)
            return str(r.choice([0, 1, 2, 3, 5, 7, -1, -3]))
        k = r.choice(["+", "+", "*", "mod", "mod", "floordiv", "ceildiv"])
        a = self.expr(nd, ns, depth - 1)
        if k == "+":
            return f"({a} + {self.expr(nd, ns, depth - 1)})"
        if k == "*":
            return f"({a} * {r.choice([2, 3, -1, -2, 4, 0])})"
        c = r.choice([1, 2, 3, 4, 5, 8]) if r.random() < 0.95 else r.choice([0, -2])
        return f"({a} {k} {c})"

    # (num_dims, num_symbols) of an affine.apply map: every shape up to 3 + 3, unequal counts favoured
    # (the split of the operand list into dims and symbols only shows when the counts differ)
    SHAPES = [(nd, ns) for nd in range(4) for ns in range(4) if nd + ns] + [(2, 1), (1, 2), (0, 1), (0, 2), (3, 1), (1, 3), (1, 0), (2, 0)]

    def apply(self, pool: list[str], lines: list[str], ind: str) -> str:
        r = self.rng
        nd, ns = r.choice(self.SHAPES)
        e = self.expr(nd, ns, r.randint(1, 3))
        if r.random() < 0.5:
            # mention every dimension and symbol, each with its own weight
            ws = r.sample([2, 3, 5, 7, 11, -4, 16, -9], nd + ns)
            for leaf, w in zip([f"d{i}" for i in range(nd)] + [f"s{i}" for i in range(ns)], ws):
                e = f"({e} + ({leaf} * {w}))" if r.random() < 0.5 else f"(({leaf} * {w}) + {e})"
        # distinct operands where the pool allows (a mis-bound operand is invisible when both are the same value)
        opnds = r.sample(pool, nd + ns) if len(pool) >= nd + ns and r.random() < 0.8 else [r.choice(pool) for _ in range(nd + ns)]
        ds, ss = opnds[:nd], opnds[nd:]
        dims = ", ".join(f"d{i}" for i in range(nd))
        syms = "[" + ", ".join(f"s{i}" for i in range(ns)) + "]" if ns else ""
        v = self.fresh()
        ops = ", ".join(ds + ss)
        tys = ", ".join(["index"] * (nd + ns))
        lines.append(f'{ind}{v} = "affine.apply"({ops}) <{{"map" = affine_map<({dims}){syms} -> ({e})>}}> : ({tys}) -> index')
        return v

    def stmt(self, pool: list[str], lines: list[str], ind: str, depth: int, mem: tuple[str, int] | None) -> None:
        r = self.rng
        kinds = ["apply"] * 3 + ["ext"] * 2 + ["arith"]
        if mem:
            kinds += ["load", "store"]
        if depth < 2:
            kinds += ["for"] * 2
        k = r.choice(kinds)
        if k == "apply":
            pool.append(self.apply(pool, lines, ind))
        elif k == "ext":
            lines.append(f"{ind}func.call @ext_index({r.choice(pool)}) : (index) -> ()")
        elif k == "arith":
            v = self.fresh()
            lines.append(f"{ind}{v} = arith.{r.choice(['addi', 'muli', 'subi'])} {r.choice(pool)}, {r.choice(pool)} : index")
            pool.append(v)
        elif k in ("load", "store"):
            assert mem is not None
            m, n = mem
            x = r.choice(pool)
            e = r.choice([f"d0 mod {n}", f"(d0 + {r.randint(0, 5)}) mod {n}", f"(d0 * 2) mod {n}", f"d0 mod {n}", "d0"])
            if k == "load":
                v = self.fresh()
                lines.append(f'{ind}{v} = "affine.load"({m}, {x}) <{{"map" = affine_map<(d0) -> ({e})>}}> : (memref<{n}xindex>, index) -> index')
                pool.append(v)
            else:
                lines.append(f'{ind}"affine.store"({r.choice(pool)}, {m}, {x}) <{{"map" = affine_map<(d0) -> ({e})>}}> : (index, memref<{n}xindex>, index) -> ()')
        else:
            self.loop(pool, lines, ind, depth, mem)

    def loop(self, pool: list[str], lines: list[str], ind: str, depth: int, mem: tuple[str, int] | None) -> None:
        r = self.rng
        lb, ub, st = r.choice([0, 0, 1, -2, 3]), r.choice([0, 1, 2, 4, 5, 7, -3]), r.choice([1, 1, 2, 3])
        nit = r.choice([0, 1, 1, 2])
        inits = [r.choice(pool) for _ in range(nit)]
        res = [self.fresh() for _ in range(nit)]
        iv = self.fresh("i")
        accs = [self.fresh("acc") for _ in range(nit)]
        lbm, ubm, lbo = f"() -> ({lb})", f"() -> ({ub})", []
        if r.random() < 0.06:
            lbm, lbo = "(d0) -> (d0)", [r.choice(pool)]     # operand bounds: lower-affine refuses (raises)
        lines.append(f'{ind}{(", ".join(res) + " = ") if res else ""}"affine.for"({", ".join(lbo + inits)}) <{{"lowerBoundMap" = affine_map<{lbm}>, '
                     f'"upperBoundMap" = affine_map<{ubm}>, "step" = {st} : index, operandSegmentSizes = array<i32: {len(lbo)}, 0, {nit}>}}> ({{')
        in2 = ind + "  "
        lines.append(f"{ind}^ab{self.n}({iv}: index" + "".join(f", {a}: index" for a in accs) + "):")
        p2 = list(pool) + [iv] + accs
        for _ in range(r.randint(1, 4)):
            self.stmt(p2, lines, in2, depth + 1, mem)
        ys = [r.choice(p2) for _ in range(nit)]
        lines.append(f'{in2}"affine.yield"({", ".join(ys)}) : ({", ".join(["index"] * nit)}) -> ()')
        lines.append(f'{ind}}}) : ({", ".join(["index"] * (len(lbo) + nit))}) -> ({", ".join(["index"] * nit)})')
        pool.extend(res)

    def program(self) -> dict[str, Any]:
        r = self.rng
        self.n = 0
        nargs = r.randint(1, 3)
        args = [f"%a{i}" for i in range(nargs)]
        pool = list(args)
        lines: list[str] = []
        c = self.fresh("c")
        lines.append(f"  {c} = arith.constant {r.choice([0, 1, 2, 5, -3])} : index")
        pool.append(c)
        mem = None
        if r.random() < 0.5:
            n = r.choice([3, 4, 6])
            m = self.fresh("m")
            lines.append(f'  {m} = "memref.alloc"() <{{operandSegmentSizes = array<i32: 0, 0>}}> : () -> memref<{n}xindex>')
            iv = self.fresh("i")
            lines.append(f'  "affine.for"() <{{"lowerBoundMap" = affine_map<() -> (0)>, "upperBoundMap" = affine_map<() -> ({n})>, "step" = 1 : index, operandSegmentSizes = array<i32: 0, 0, 0>}}> ({{')
            lines.append(f"  ^ab0({iv}: index):")
            v = self.fresh()
            lines.append(f'    {v} = "affine.apply"({iv}) <{{"map" = affine_map<(d0) -> ((d0 * {r.choice([1, 3, -2])}) + {r.choice([0, 1, 10])})>}}> : (index) -> index')
            lines.append(f'    "affine.store"({v}, {m}, {iv}) <{{"map" = affine_map<(d0) -> (d0)>}}> : (index, memref<{n}xindex>, index) -> ()')
            lines.append('    "affine.yield"() : () -> ()')
            lines.append("  }) : () -> ()")
            mem = (m, n)
        for _ in range(r.randint(2, 6)):
            self.stmt(pool, lines, "  ", 0, mem)
        nret = r.randint(1, 2)
        rets = [r.choice(pool) for _ in range(nret)]
        sig = ", ".join(f"{a}: index" for a in args)
        text = ("builtin.module {\nfunc.func @main(" + sig + ") -> (" + ", ".join(["index"] * nret) + ") {\n" + "\n".join(lines)
                + "\n  func.return " + ", ".join(rets) + " : " + ", ".join(["index"] * nret) + "\n}\n"
                + "func.func private @ext_index(index) -> ()\n}\n")
        return {"text": text, "arg_types": ["index"] * nargs, "ret_types": ["index"] * nret}


class SymrefGen:
    """func whose body uses symref.declare/update/fetch (always written before read), i32 arithmetic,
    external calls; optionally symbol uses nested in scf.if / scf.for regions down to `max_depth` region
    levels below the function body (then also symbols without a declaration in the program, and symbols
    declared inside a nested block — visible in that block and below it only)."""

    def __init__(self, rng: Any, nested: bool, max_depth: int = 4):
        self.rng = rng
        self.nested = nested
        self.max_depth = max_depth if nested else 0
        self.n = 0
        self.nsym = 0
        self.deepest = 0     # deepest region level (below the function body) at which a symbol is touched
        self.span = 0        # largest distance between the declaring block and a use of the symbol

    def fresh(self, p: str = "v") -> str:
        self.n += 1
        return f"%{p}{self.n}"

    def touch(self, syms: list[tuple[str, int]], depth: int) -> str:
        """pick a visible symbol; symbols of outer blocks are preferred in nested blocks"""
        r = self.rng
        outer = [s for s in syms if s[1] < depth]
        name, lvl = r.choice(outer) if outer and r.random() < 0.7 else r.choice(syms)
        self.deepest = max(self.deepest, depth)
        if lvl >= 0:
            self.span = max(self.span, depth - lvl)
        return name

    def block(self, syms: list[tuple[str, int]], pool: list[str], lines: list[str], ind: str, depth: int, conds: list[str]) -> None:
        """body of a nested region: own scope for values and for symbols declared in it; a block that will
        hold a further region is often otherwise quiet (no direct use of any symbol)"""
        r = self.rng
        p2, s2 = list(pool), list(syms)
        n = r.randint(1, 3) if depth < 3 else r.randint(1, 2)
        if depth < self.max_depth and r.random() < 0.45:
            # a pure carrier level: only the nested operation (and maybe arithmetic / a call)
            for _ in range(r.randint(0, 1)):
                self.stmt(s2, p2, lines, ind, depth, conds, only=["arith", "ext"])
            self.stmt(s2, p2, lines, ind, depth, conds, only=["if", "for"])
            if r.random() < 0.3:
                self.stmt(s2, p2, lines, ind, depth, conds, only=["fetch", "update", "ext"])
            return
        for _ in range(n):
            self.stmt(s2, p2, lines, ind, depth, conds)

    def stmt(self, syms: list[tuple[str, int]], pool: list[str], lines: list[str], ind: str, depth: int, conds: list[str],
             only: list[str] | None = None) -> None:
        r = self.rng
        kinds = ["fetch"] * 3 + ["update"] * 3 + ["arith"] * 2 + ["ext"] * 2
        if depth == 0 or (self.nested and r.random() < 0.5):
            kinds += ["declare"]
        if depth < self.max_depth:
            kinds += ["if", "for"] * (1 if depth < 2 else 2)
        k = r.choice(only if only is not None else kinds)
        if k == "fetch":
            v = self.fresh()
            lines.append(f"{ind}{v} = symref.fetch @{self.touch(syms, depth)} : i32")
            pool.append(v)
        elif k == "update":
            lines.append(f"{ind}symref.update @{self.touch(syms, depth)} = {r.choice(pool)} : i32")
        elif k == "arith":
            v = self.fresh()
            lines.append(f"{ind}{v} = arith.{r.choice(['addi', 'muli', 'subi', 'xori'])} {r.choice(pool)}, {r.choice(pool)} : i32")
            pool.append(v)
        elif k == "ext":
            lines.append(f"{ind}func.call @ext_i32({r.choice(pool)}) : (i32) -> ()")
        elif k == "declare":
            s = f"s{self.nsym}"
            self.nsym += 1
            lines.append(f'{ind}symref.declare "{s}"')
            lines.append(f"{ind}symref.update @{s} = {r.choice(pool)} : i32")
            syms.append((s, depth))
        elif k == "if":
            lines.append(f"{ind}scf.if {r.choice(conds)} {{")
            form = r.choice(["then", "then", "then_else", "then_else", "empty_else", "else_only"])
            if form != "else_only":
                self.block(syms, pool, lines, ind + "  ", depth + 1, conds)
            if form != "then":
                lines.append(ind + "} else {")
                if form != "empty_else":
                    self.block(syms, pool, lines, ind + "  ", depth + 1, conds)
            lines.append(ind + "}")
        elif k == "for":
            lb, ub, st = self.fresh("c"), self.fresh("c"), self.fresh("c")
            lines.append(f"{ind}{lb} = arith.constant 0 : index")
            lines.append(f"{ind}{ub} = arith.constant {r.choice([0, 1, 2, 3] if depth < 2 else [0, 1, 2])} : index")
            lines.append(f"{ind}{st} = arith.constant 1 : index")
            lines.append(f"{ind}scf.for {self.fresh('i')} = {lb} to {ub} step {st} {{")
            self.block(syms, pool, lines, ind + "  ", depth + 1, conds)
            lines.append(ind + "}")

    def program(self) -> dict[str, Any]:
        r = self.rng
        self.n = self.nsym = self.deepest = self.span = 0
        nargs = r.randint(1, 3)
        arg_tys = ["i32"] * nargs + ["i1"]
        args = [f"%a{i}" for i in range(nargs + 1)]
        pool = args[:nargs]
        conds = [args[-1]]
        lines: list[str] = []
        c = self.fresh("c")
        lines.append(f"  {c} = arith.constant {r.choice([0, 1, 7, -5])} : i32")
        pool.append(c)
        syms: list[tuple[str, int]] = []
        # nested variant: sometimes the symbols are declared by an enclosing scope that is not part of the
        # program (as in tests/filecheck/transforms/desymref.mlir): the pass then only forwards within blocks
        undeclared = self.nested and r.random() < 0.4
        for _ in range(r.randint(1, 2)):
            s = f"s{self.nsym}"
            self.nsym += 1
            if not undeclared:
                lines.append(f'  symref.declare "{s}"')
            lines.append(f"  symref.update @{s} = {r.choice(pool)} : i32")
            syms.append((s, -1 if undeclared else 0))
        top = list(syms)
        for _ in range(r.randint(2, 10) if not self.nested else r.randint(2, 7)):
            self.stmt(syms, pool, lines, "  ", 0, conds)
        rets = []
        for s, _ in top[: r.randint(1, len(top))]:
            v = self.fresh()
            lines.append(f"  {v} = symref.fetch @{s} : i32")
            rets.append(v)
        if r.random() < 0.5:
            rets.append(r.choice(pool))
        sig = ", ".join(f"{a}: {t}" for a, t in zip(args, arg_tys))
        text = ("builtin.module {\nfunc.func @main(" + sig + ") -> (" + ", ".join(["i32"] * len(rets)) + ") {\n" + "\n".join(lines)
                + "\n  func.return " + ", ".join(rets) + " : " + ", ".join(["i32"] * len(rets)) + "\n}\n"
                + "func.func private @ext_i32(i32) -> ()\n}\n")
        return {"text": text, "arg_types": arg_tys, "ret_types": ["i32"] * len(rets),
                "sym_depth": self.deepest, "sym_span": self.span, "sym_declared": not undeclared}


# -- systematic family: one symbol, touched `d` region levels below the block that declares it ---------------

SYM_WRAPPERS = ("if_then", "if_else", "if_noelse", "for")   # region operation kinds of a carrier level
SYM_ACCESS = ("w", "r", "rw")                                # what the innermost block does with the symbol
SYM_AFTER = ("r", "wr", "none")                              # what the declaring block does after the nest
SYM_DECL = ("body", "inner", "undeclared")                   # declaration in the function body / in a nested block / none


def symref_depth_cases(max_d: int) -> list[tuple[tuple[str, ...], str, str, str, bool]]:
    """every (carrier chain of length ≤ max_d, access, after, declaration, intermediate level also touches)"""
    import itertools

    out = []
    for d in range(max_d + 1):
        for chain in itertools.product(SYM_WRAPPERS, repeat=d):
            for acc in SYM_ACCESS:
                for aft in SYM_AFTER:
                    for decl in SYM_DECL:
                        for mid in ((False, True) if d >= 2 else (False,)):
                            out.append((chain, acc, aft, decl, mid))
    return out


def symref_depth_program(chain: tuple[str, ...], acc: str, aft: str, decl: str, mid: bool, trip: int = 2) -> dict[str, Any]:
    """A symbol `a` is (declared and) written in one block, touched again inside `chain` (carrier region
    operations, outermost first) and read / overwritten afterwards in the first block; everything the
    symbol ever holds that the program reads reaches an external call (and the result when the
    declaring block is the function body)."""
    L: list[str] = []
    ind = "  "
    L += [f"{ind}%k = arith.constant 40 : i32", f"{ind}%lb = arith.constant 0 : index",
          f"{ind}%ub = arith.constant {trip} : index", f"{ind}%st = arith.constant 1 : index"]
    closers: list[str] = []
    if decl == "inner":
        # the declaring block is itself the body of a loop of the function
        L.append(f"{ind}scf.for %o = %lb to %ub step %st {{")
        closers.append(ind + "}")
        ind += "  "
    if decl != "undeclared":
        L.append(f'{ind}symref.declare "a"')
    L.append(f"{ind}symref.update @a = %x : i32")
    base = ind
    inner_close: list[str] = []
    for lvl, w in enumerate(chain):
        if w == "for":
            L.append(f"{ind}scf.for %i{lvl} = %lb to %ub step %st {{")
            inner_close.append(ind + "}")
        elif w == "if_else":
            L.append(f"{ind}scf.if %c {{")
            L.append(f"{ind}}} else {{")
            inner_close.append(ind + "}")
        elif w == "if_then":
            L.append(f"{ind}scf.if %c {{")
            inner_close.append(ind + "} else {\n" + ind + "}")
        else:
            L.append(f"{ind}scf.if %c {{")
            inner_close.append(ind + "}")
        ind += "  "
        if mid and lvl == 0 and len(chain) >= 2:
            L.append(f"{ind}%m = symref.fetch @a : i32")
            L.append(f"{ind}func.call @ext_i32(%m) : (i32) -> ()")
    if acc == "w":
        L.append(f"{ind}symref.update @a = %k : i32")
    elif acc == "r":
        L.append(f"{ind}%v = symref.fetch @a : i32")
        L.append(f"{ind}func.call @ext_i32(%v) : (i32) -> ()")
    else:
        L.append(f"{ind}%v = symref.fetch @a : i32")
        L.append(f"{ind}%w = arith.addi %v, %k : i32")
        L.append(f"{ind}symref.update @a = %w : i32")
    for cl in reversed(inner_close):
        L += cl.split("\n")
    ind = base
    ret = "%x"
    if aft == "wr":
        L.append(f"{ind}symref.update @a = %y : i32")
    if aft in ("r", "wr"):
        L.append(f"{ind}%r = symref.fetch @a : i32")
        L.append(f"{ind}func.call @ext_i32(%r) : (i32) -> ()")
        if decl != "inner":
            ret = "%r"
    L += reversed(closers)
    text = ("builtin.module {\nfunc.func @main(%x: i32, %y: i32, %c: i1) -> (i32) {\n" + "\n".join(L)
            + f"\n  func.return {ret} : i32\n}}\nfunc.func private @ext_i32(i32) -> ()\n}}\n")
    return {"text": text, "arg_types": ["i32", "i32", "i1"], "ret_types": ["i32"],
            "vecs": [[7, 11, -1], [7, 11, 0], [-3, 5, -1]],
            "sym_depth": len(chain) + (1 if decl == "inner" else 0), "sym_span": len(chain), "sym_declared": decl != "undeclared"}


# ------------------------------------------------------------------------------------------------
# C16: enumerated families for the *applicability decisions* of the loop passes
# ------------------------------------------------------------------------------------------------

FOLD_CARRIERS = ("if_then", "if_else", "for")


def fold_scope_origins(chain: tuple[str, ...]) -> list[tuple[str, int]]:
    """where the other operand of the user of the induction variable may be defined: outside the loop (constant,
    function argument, operation result), directly in the loop body (operation result, loop-carried block argument)
    or at level l = 1…len(chain) of the regions nested in the body (operation result; block arguments of a `for`)"""
    out = [("const", 0), ("arg", 0), ("outer_op", 0), ("body_op", 0), ("acc", 0)]
    for lvl, w in enumerate(chain, 1):
        out.append(("op", lvl))
        if w == "for":
            out += [("acc", lvl), ("iv", lvl)]
    return out


def fold_scope_cases(max_d: int, full_d: int, deep_all: bool = True) -> list[tuple[tuple[str, ...], tuple[str, int], str, bool, tuple[str, int] | None]]:
    """(carrier chain, origin of the other operand, addi/muli, induction variable on the left?, origin of the other
    operand of a second link or None).  Chains of length ≤ full_d get every combination, longer ones addi only with
    alternating sides (and, unless deep_all, only the origins inside the nested regions and no second link: the
    others do not depend on the depth and are covered by the shorter chains)."""
    chains: list[tuple[str, ...]] = [()]
    for d in range(1, max_d + 1):
        chains += list(itertools.product(FOLD_CARRIERS, repeat=d))
    cases = []
    n = 0
    for ch in chains:
        origins = fold_scope_origins(ch)
        for org in origins:
            if len(ch) <= full_d:
                for op in ("addi", "muli"):
                    for left in (True, False):
                        cases.append((ch, org, op, left, None))
            elif deep_all or org[1] >= 1:
                n += 1
                cases.append((ch, org, "addi", n % 2 == 0, None))
        # a second link after a foldable first one: the pass folds to a fixed point
        for org2 in (origins if deep_all or len(ch) <= full_d else []):
            n += 1
            cases.append((ch, ("const", 0), "addi", n % 2 == 0, org2))
    return cases


def fold_scope_program(chain: tuple[str, ...], origin: tuple[str, int], op: str, left: bool,
                       origin2: tuple[str, int] | None = None, ub: int = 3) -> dict[str, Any]:
    """`scf.for` whose induction variable has exactly one use, an arith.addi/muli located `len(chain)` region
    levels below the loop body (carriers: scf.if then/else branch, inner scf.for), whose other operand is defined
    at `origin`.  Folding the operation into the loop range is only sound when that operand is defined outside the
    loop; everything computed reaches an external call and the result."""
    L: list[str] = []
    ind = "  "
    L += [f"{ind}%c0 = arith.constant 0 : index", f"{ind}%c1 = arith.constant 1 : index", f"{ind}%c2 = arith.constant 2 : index",
          f"{ind}%c3 = arith.constant 3 : index", f"{ind}%k5 = arith.constant 5 : index", f"{ind}%ub = arith.constant {ub} : index",
          f"{ind}%oo = arith.addi %a, %c2 : index",
          f"{ind}%r = scf.for %i = %c1 to %ub step %c1 iter_args(%acc0 = %a) -> (index) {{"]
    ind += "  "
    L.append(f"{ind}%n0 = arith.addi %acc0, %c2 : index")
    close: list[tuple[str, str, int]] = []
    for lvl, w in enumerate(chain, 1):
        if w == "for":
            L.append(f"{ind}%j{lvl} = scf.for %k{lvl} = %c1 to %c3 step %c1 iter_args(%acc{lvl} = %c2) -> (index) {{")
        else:
            L.append(f"{ind}%j{lvl} = scf.if %c -> (index) {{")
            if w == "if_else":
                L.append(f"{ind}  scf.yield %k5 : index")
                L.append(f"{ind}}} else {{")
        close.append((ind, w, lvl))
        ind += "  "
        L.append(f"{ind}%n{lvl} = arith.addi %a, %c3 : index")

    def name(org: tuple[str, int]) -> str:
        kind, lvl = org
        return {"const": "%c2", "arg": "%a", "outer_op": "%oo", "body_op": "%n0"}.get(kind) or \
            {"op": f"%n{lvl}", "acc": f"%acc{lvl}", "iv": f"%k{lvl}"}[kind]

    x = name(origin)
    a, b = ("%i", x) if left else (x, "%i")
    L.append(f"{ind}%t = arith.{op} {a}, {b} : index")
    last = "%t"
    if origin2 is not None:
        x2 = name(origin2)
        a, b = (x2, "%t") if left else ("%t", x2)
        L.append(f"{ind}%t2 = arith.addi {a}, {b} : index")
        last = "%t2"
    L.append(f"{ind}func.call @ext_index({last}) : (index) -> ()")
    for ind0, w, lvl in reversed(close):
        L.append(f"{ind0}  scf.yield {last} : index")
        if w == "if_then":
            L.append(f"{ind0}}} else {{")
            L.append(f"{ind0}  scf.yield %k5 : index")
        L.append(f"{ind0}}}")
        last = f"%j{lvl}"
        ind = ind0
    L.append(f"{ind}func.call @ext_index({last}) : (index) -> ()")
    L.append(f"{ind}%s = arith.addi %acc0, {last} : index")
    L.append(f"{ind}scf.yield %s : index")
    L.append("  }")
    text = ("builtin.module {\nfunc.func @main(%a: index, %c: i1) -> (index) {\n" + "\n".join(L)
            + "\n  func.return %r : index\n}\nfunc.func private @ext_index(index) -> ()\n}\n")
    return {"text": text, "arg_types": ["index", "i1"], "ret_types": ["index"], "vecs": [[5, -1], [5, 0], [-2, -1]]}


def nest_iter_cases(full: bool) -> list[tuple[tuple[int, ...], tuple[int, ...], int, int, int]]:
    """(inner-loop initialisation as positions of the outer block arguments, outer yield as positions of the inner
    results, outer upper bound, outer step, inner trip count).  Two carried values: every map {0,1}→{0,1} (the two
    permutations and the two duplications) × both yield orders; three: every permutation × identity / rotation."""
    cases = []
    for ini in itertools.product(range(2), repeat=2):
        for out in itertools.permutations(range(2)):
            for oub, ost in ((1, 1), (2, 1), (3, 1), (3, 2)):
                for itr in ((0, 1, 2) if full else (0, 2)):
                    cases.append((ini, out, oub, ost, itr))
    inis3 = list(itertools.permutations(range(3))) + ([(0, 0, 1), (2, 1, 2)] if full else [])
    for ini in inis3:
        for out in ((0, 1, 2), (1, 2, 0)) + (((2, 1, 0),) if full else ()):
            for oub, ost, itr in (((2, 1, 1), (3, 1, 2), (3, 2, 1)) if full else ((2, 1, 1), (3, 1, 2))):
                cases.append((ini, out, oub, ost, itr))
    return cases


def nest_iter_program(ini: tuple[int, ...], out: tuple[int, ...], oub: int, ost: int, itr: int) -> dict[str, Any]:
    """Perfect 2-deep `scf.for` nest carrying k values, induction variables unused, constant bounds: the inner loop
    is initialised with the outer block arguments at positions `ini`, the outer loop yields the inner results at
    positions `out`, the inner body treats every carried value differently (add / multiply / subtract-from) and shows
    the first one to an external call.  Only `ini` = `out` = identity is a nest a single loop can stand for."""
    k = len(ini)
    tys = ", ".join(["index"] * k)
    args = ["%a", "%b", "%d"][:k]
    L = ["  %c0 = arith.constant 0 : index", "  %c1 = arith.constant 1 : index", "  %c2 = arith.constant 2 : index",
         "  %c7 = arith.constant 7 : index", f"  %ou = arith.constant {oub} : index", f"  %os = arith.constant {ost} : index",
         f"  %iu = arith.constant {itr} : index"]
    rs = ", ".join(f"%r{j}" for j in range(k))
    L.append(f"  {rs} = scf.for %o = %c0 to %ou step %os iter_args("
             + ", ".join(f"%p{j} = {args[j]}" for j in range(k)) + f") -> ({tys}) {{")
    qs = ", ".join(f"%q{j}" for j in range(k))
    L.append(f"    {qs} = scf.for %i = %c0 to %iu step %c1 iter_args("
             + ", ".join(f"%x{j} = %p{ini[j]}" for j in range(k)) + f") -> ({tys}) {{")
    L.append("      func.call @ext_index(%x0) : (index) -> ()")
    body = ["arith.addi %x0, %c1", "arith.muli %x1, %c2", "arith.subi %c7, %x2"]
    for j in range(k):
        L.append(f"      %y{j} = {body[j]} : index")
    L.append("      scf.yield " + ", ".join(f"%y{j}" for j in range(k)) + f" : {tys}")
    L.append("    }")
    L.append("    scf.yield " + ", ".join(f"%q{out[j]}" for j in range(k)) + f" : {tys}")
    L.append("  }")
    sig = ", ".join(f"{a}: index" for a in args)
    text = (f"builtin.module {{\nfunc.func @main({sig}) -> ({tys}) {{\n" + "\n".join(L)
            + f"\n  func.return {rs} : {tys}\n}}\nfunc.func private @ext_index(index) -> ()\n}}\n")
    return {"text": text, "arg_types": ["index"] * k, "ret_types": ["index"] * k,
            "vecs": [[1, 100, 10][:k], [-4, 9, 3][:k], [0, 5, 5][:k]]}
