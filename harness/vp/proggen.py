"""
Random generator of func/arith/cf/scf programs (MLIR text), shared by C13–C16, C28.
All randomness comes from the `random.Random` passed in.  Programs are mostly valid and mostly
UB-free; the Lean reference semantics classifies UB at run time so that it can be excluded.
"""
from __future__ import annotations

import math
import struct
from dataclasses import dataclass, field
from typing import Any

INT_OPS_INTERP = ["addi", "subi", "muli", "andi", "ori", "xori", "shli", "shrsi", "divsi", "remsi", "floordivsi"]
INT_OPS_ALL = INT_OPS_INTERP + ["shrui", "divui", "remui", "ceildivsi", "ceildivui", "minsi", "maxsi", "minui", "maxui"]
FLOAT_OPS_INTERP = ["addf", "subf", "mulf", "minimumf", "maximumf"]
FLOAT_OPS_ALL = FLOAT_OPS_INTERP + ["divf"]
CMPI = ["eq", "ne", "slt", "sle", "sgt", "sge", "ult", "ule", "ugt", "uge"]
CMPF = ["false", "oeq", "ogt", "oge", "olt", "ole", "one", "ord", "ueq", "ugt", "uge", "ult", "ule", "une", "uno", "true"]


def width(t: str) -> int:
    return 64 if t == "index" else int(t[1:])


@dataclass
class Config:
    int_types: list[str] = field(default_factory=lambda: ["i1", "i8", "i16", "i32", "i64", "index"])
    float_types: list[str] = field(default_factory=lambda: ["f32", "f64"])
    int_ops: list[str] = field(default_factory=lambda: list(INT_OPS_INTERP))
    float_ops: list[str] = field(default_factory=lambda: list(FLOAT_OPS_INTERP))
    cmpi_preds: list[str] = field(default_factory=lambda: list(CMPI))
    casts: list[str] = field(default_factory=lambda: ["index_cast"])
    scf_if: bool = True
    scf_for: bool = True
    cf: bool = True
    calls: bool = True
    externs: bool = True
    select: bool = False
    max_stmts: int = 8
    max_depth: int = 2
    symbolic_bounds: bool = True


class ProgGen:
    def __init__(self, rng: Any, cfg: Config | None = None):
        self.rng = rng
        self.cfg = cfg or Config()
        self.n = 0
        self.nb = 0
        self.ext_sigs: dict[str, str] = {}
        self.helpers: list[str] = []

    def fresh(self, p: str = "v") -> str:
        self.n += 1
        return f"%{p}{self.n}"

    def fresh_block(self) -> str:
        self.nb += 1
        return f"^bb{self.nb}"

    # ------------------------------------------------------------------ constants
    def int_const(self, t: str) -> int:
        w = width(t)
        r = self.rng.random()
        lo, hi = -(1 << (w - 1)), (1 << (w - 1)) - 1
        if w == 1:
            return self.rng.choice([0, -1, 1]) if False else self.rng.choice([0, 1])
        if r < 0.35:
            return self.rng.choice([0, 1, 2, 3, -1, -2, 5, 7])
        if r < 0.6:
            return self.rng.choice([lo, lo + 1, hi, hi - 1, -1, 1 << (w - 2), w - 1, w])
        return self.rng.randint(max(lo, -1000), min(hi, 1000)) if r < 0.85 else self.rng.randint(lo, hi)

    def float_const_text(self, t: str) -> str:
        r = self.rng.random()
        if r < 0.5:
            v = self.rng.choice([0.0, -0.0, 1.0, -1.0, 0.5, 2.0, 3.0, 1.5, -2.5, 0.1, 100.0, 16777216.0, 1e10, 1e-3])
        elif r < 0.6:
            return self.rng.choice(["0x7F800000", "0xFF800000", "0x7FC00000"]) if t == "f32" else self.rng.choice(["0x7FF0000000000000", "0xFFF0000000000000", "0x7FF8000000000000"])
        else:
            v = self.rng.uniform(-50, 50)
        if t == "f32":
            v = struct.unpack("<f", struct.pack("<f", v))[0]
        s = repr(float(v))
        if "e" in s or "inf" in s or "nan" in s:
            bits = struct.unpack("<I", struct.pack("<f", v))[0] if t == "f32" else struct.unpack("<Q", struct.pack("<d", v))[0]
            return f"0x{bits:0{8 if t == 'f32' else 16}X}"
        return s

    # ------------------------------------------------------------------ statements
    def pick(self, pool: dict[str, list[str]], t: str, lines: list[str], ind: str) -> str:
        vs = pool.get(t, [])
        if vs and self.rng.random() < 0.85:
            return self.rng.choice(vs)
        return self.const(pool, t, lines, ind)

    def const(self, pool: dict[str, list[str]], t: str, lines: list[str], ind: str) -> str:
        v = self.fresh("c")
        if t in self.cfg.float_types:
            lines.append(f"{ind}{v} = arith.constant {self.float_const_text(t)} : {t}")
        elif t == "i1":
            lines.append(f"{ind}{v} = arith.constant {'true' if self.rng.random() < 0.5 else 'false'}")
        else:
            lines.append(f"{ind}{v} = arith.constant {self.int_const(t)} : {t}")
        pool.setdefault(t, []).append(v)
        return v

    def stmt(self, pool: dict[str, list[str]], lines: list[str], ind: str, depth: int) -> None:
        c = self.cfg
        kinds = ["int"] * 6 + ["cmpi"] * 2
        if c.float_types and c.float_ops:
            kinds += ["float"] * 2 + ["cmpf"]
        if c.casts:
            kinds += ["cast"]
        if c.select:
            kinds += ["select"]
        if depth < c.max_depth:
            if c.scf_if:
                kinds += ["if"] * 2
            if c.scf_for:
                kinds += ["for"] * 2
        if c.externs:
            kinds += ["ext"]
        if c.calls and self.helpers:
            kinds += ["call"]
        k = self.rng.choice(kinds)
        if k == "int":
            t = self.rng.choice([x for x in c.int_types if x != "i1"] or c.int_types)
            op = self.rng.choice(c.int_ops)
            a, b = self.pick(pool, t, lines, ind), self.pick(pool, t, lines, ind)
            if op in ("shli", "shrsi", "shrui") and self.rng.random() < 0.8:
                b = self.fresh("c")
                lines.append(f"{ind}{b} = arith.constant {self.rng.randrange(0, width(t))} : {t}")
            if op in ("divsi", "remsi", "divui", "remui", "floordivsi", "ceildivsi", "ceildivui") and self.rng.random() < 0.8:
                b = self.fresh("c")
                lines.append(f"{ind}{b} = arith.constant {self.rng.choice([1, 2, 3, -1, -2, 7, 5, -3])} : {t}")
            v = self.fresh()
            lines.append(f"{ind}{v} = arith.{op} {a}, {b} : {t}")
            pool.setdefault(t, []).append(v)
        elif k == "cmpi":
            t = self.rng.choice(c.int_types)
            a, b = self.pick(pool, t, lines, ind), self.pick(pool, t, lines, ind)
            v = self.fresh()
            lines.append(f"{ind}{v} = arith.cmpi {self.rng.choice(c.cmpi_preds)}, {a}, {b} : {t}")
            pool.setdefault("i1", []).append(v)
        elif k == "float":
            t = self.rng.choice(c.float_types)
            a, b = self.pick(pool, t, lines, ind), self.pick(pool, t, lines, ind)
            v = self.fresh()
            lines.append(f"{ind}{v} = arith.{self.rng.choice(c.float_ops)} {a}, {b} : {t}")
            pool.setdefault(t, []).append(v)
        elif k == "cmpf":
            t = self.rng.choice(c.float_types)
            a, b = self.pick(pool, t, lines, ind), self.pick(pool, t, lines, ind)
            v = self.fresh()
            lines.append(f"{ind}{v} = arith.cmpf {self.rng.choice(CMPF)}, {a}, {b} : {t}")
            pool.setdefault("i1", []).append(v)
        elif k == "cast":
            cast = self.rng.choice(c.casts)
            ints = [x for x in c.int_types if x not in ("index",)]
            if cast == "index_cast" and "index" in c.int_types and ints:
                t = self.rng.choice([x for x in ints if x != "i1"] or ints)
                if self.rng.random() < 0.5:
                    a = self.pick(pool, t, lines, ind); v = self.fresh()
                    lines.append(f"{ind}{v} = arith.index_cast {a} : {t} to index")
                    pool.setdefault("index", []).append(v)
                else:
                    a = self.pick(pool, "index", lines, ind); v = self.fresh()
                    lines.append(f"{ind}{v} = arith.index_cast {a} : index to {t}")
                    pool.setdefault(t, []).append(v)
            elif cast in ("extsi", "extui", "trunci") and len(ints) >= 2:
                t1, t2 = self.rng.sample(ints, 2)
                if width(t1) > width(t2):
                    t1, t2 = t2, t1
                if width(t1) == width(t2):
                    return
                if cast == "trunci":
                    a = self.pick(pool, t2, lines, ind); v = self.fresh()
                    lines.append(f"{ind}{v} = arith.trunci {a} : {t2} to {t1}")
                    pool.setdefault(t1, []).append(v)
                else:
                    a = self.pick(pool, t1, lines, ind); v = self.fresh()
                    lines.append(f"{ind}{v} = arith.{cast} {a} : {t1} to {t2}")
                    pool.setdefault(t2, []).append(v)
        elif k == "select":
            t = self.rng.choice(c.int_types + c.float_types)
            cnd = self.pick(pool, "i1", lines, ind)
            a, b = self.pick(pool, t, lines, ind), self.pick(pool, t, lines, ind)
            v = self.fresh()
            lines.append(f"{ind}{v} = arith.select {cnd}, {a}, {b} : {t}")
            pool.setdefault(t, []).append(v)
        elif k == "ext":
            t = self.rng.choice(c.int_types + c.float_types)
            name = f"ext_{t}"
            self.ext_sigs[name] = t
            a = self.pick(pool, t, lines, ind)
            lines.append(f"{ind}func.call @{name}({a}) : ({t}) -> ()")
        elif k == "call":
            h = self.rng.choice(self.helpers)
            a, b = self.pick(pool, "i32", lines, ind), self.pick(pool, "i32", lines, ind)
            v = self.fresh()
            lines.append(f"{ind}{v} = func.call @{h}({a}, {b}) : (i32, i32) -> i32")
            pool.setdefault("i32", []).append(v)
            if c.externs:
                # make the callee's result observable (effect log) even if nothing else uses it
                self.ext_sigs["ext_i32"] = "i32"
                lines.append(f"{ind}func.call @ext_i32({v}) : (i32) -> ()")
        elif k == "if":
            cnd = self.pick(pool, "i1", lines, ind)
            tys = [self.rng.choice(c.int_types + c.float_types) for _ in range(self.rng.randint(0, 2))]
            res = [self.fresh() for _ in tys]
            hdr = (", ".join(res) + " = " if res else "") + f"scf.if {cnd}" + (" -> (" + ", ".join(tys) + ")" if tys else "") + " {"
            lines.append(ind + hdr)
            for branch in range(2):
                p2 = {t: list(vs) for t, vs in pool.items()}
                for _ in range(self.rng.randint(0, 3)):
                    self.stmt(p2, lines, ind + "  ", depth + 1)
                ys = [self.pick(p2, t, lines, ind + "  ") for t in tys]
                if tys:
                    lines.append(f"{ind}  scf.yield " + ", ".join(ys) + " : " + ", ".join(tys))
                if branch == 0:
                    lines.append(ind + "} else {")
            lines.append(ind + "}")
            for r, t in zip(res, tys):
                pool.setdefault(t, []).append(r)
        elif k == "for":
            def bound(vals: list[int]) -> str:
                # only function arguments (kept small by `inputs`) may be symbolic bounds, so that
                # every loop is short by construction
                if c.symbolic_bounds and pool.get("__small_index") and self.rng.random() < 0.3:
                    return self.rng.choice(pool["__small_index"])
                v = self.fresh("c")
                lines.append(f"{ind}{v} = arith.constant {self.rng.choice(vals)} : index")
                return v
            lb, ub = bound([-2, 0, 0, 1, 3]), bound([-3, 0, 1, 2, 4, 5, 7])
            st = self.fresh("c")
            lines.append(f"{ind}{st} = arith.constant {self.rng.choice([1, 1, 2, 3])} : index")
            tys = [self.rng.choice(c.int_types + c.float_types) for _ in range(self.rng.randint(0, 2))]
            inits = [self.pick(pool, t, lines, ind) for t in tys]
            res = [self.fresh() for _ in tys]
            iv = self.fresh("i")
            accs = [self.fresh("acc") for _ in tys]
            hdr = (", ".join(res) + " = " if res else "") + f"scf.for {iv} = {lb} to {ub} step {st}"
            if tys:
                hdr += " iter_args(" + ", ".join(f"{a} = {i}" for a, i in zip(accs, inits)) + ") -> (" + ", ".join(tys) + ")"
            lines.append(ind + hdr + " {")
            p2 = {t: list(vs) for t, vs in pool.items()}
            p2.setdefault("index", []).append(iv)
            for a, t in zip(accs, tys):
                p2.setdefault(t, []).append(a)
            for _ in range(self.rng.randint(1, 4)):
                self.stmt(p2, lines, ind + "  ", depth + 1)
            ys = [self.pick(p2, t, lines, ind + "  ") for t in tys]
            if tys:
                lines.append(f"{ind}  scf.yield " + ", ".join(ys) + " : " + ", ".join(tys))
            lines.append(ind + "}")
            for r, t in zip(res, tys):
                pool.setdefault(t, []).append(r)

    # ------------------------------------------------------------------ CFG shapes (top level only)
    def cfg_diamond(self, pool: dict[str, list[str]], lines: list[str]) -> None:
        c = self.cfg
        cnd = self.pick(pool, "i1", lines, "  ")
        t = self.rng.choice(c.int_types + c.float_types)
        bt, be, bm = self.fresh_block(), self.fresh_block(), self.fresh_block()
        xa, xb = self.pick(pool, t, lines, "  "), self.pick(pool, t, lines, "  ")
        lines.append(f"  cf.cond_br {cnd}, {bt}({xa} : {t}), {be}({xb} : {t})")
        outs = []
        for blk in (bt, be):
            arg = self.fresh("ba")
            lines.append(f"{blk}({arg}: {t}):")
            p2 = {k: list(v) for k, v in pool.items()}
            p2.setdefault(t, []).append(arg)
            for _ in range(self.rng.randint(0, 3)):
                self.stmt(p2, lines, "  ", 1)
            r = self.pick(p2, t, lines, "  ")
            lines.append(f"  cf.br {bm}({r} : {t})")
        m = self.fresh("ba")
        lines.append(f"{bm}({m}: {t}):")
        pool.setdefault(t, []).append(m)

    def cfg_loop(self, pool: dict[str, list[str]], lines: list[str]) -> None:
        c = self.cfg
        t = self.rng.choice([x for x in c.int_types if x != "i1"] + c.float_types)
        bh, bb, bx = self.fresh_block(), self.fresh_block(), self.fresh_block()
        i0, n, one = self.fresh("c"), self.fresh("c"), self.fresh("c")
        lines.append(f"  {i0} = arith.constant {self.rng.choice([0, 0, 1, -1])} : index")
        lines.append(f"  {n} = arith.constant {self.rng.choice([0, 1, 3, 4, 6])} : index")
        lines.append(f"  {one} = arith.constant {self.rng.choice([1, 1, 2])} : index")
        acc0 = self.pick(pool, t, lines, "  ")
        lines.append(f"  cf.br {bh}({i0}, {acc0} : index, {t})")
        i, acc, cnd = self.fresh("i"), self.fresh("acc"), self.fresh()
        lines.append(f"{bh}({i}: index, {acc}: {t}):")
        lines.append(f"  {cnd} = arith.cmpi slt, {i}, {n} : index")
        lines.append(f"  cf.cond_br {cnd}, {bb}, {bx}")
        lines.append(f"{bb}:")
        p2 = {k: list(v) for k, v in pool.items()}
        p2.setdefault("index", []).append(i)
        p2.setdefault(t, []).append(acc)
        for _ in range(self.rng.randint(1, 4)):
            self.stmt(p2, lines, "  ", 1)
        acc2 = self.pick(p2, t, lines, "  ")
        i2 = self.fresh()
        lines.append(f"  {i2} = arith.addi {i}, {one} : index")
        lines.append(f"  cf.br {bh}({i2}, {acc2} : index, {t})")
        lines.append(f"{bx}:")
        pool.setdefault(t, []).append(acc)

    # ------------------------------------------------------------------ whole program
    def helper(self) -> str:
        name = f"helper{len(self.helpers)}"
        lines: list[str] = []
        pool = {"i32": ["%h0", "%h1"]}
        saved = (self.cfg.calls, self.cfg.cf)
        self.cfg.calls = False
        for _ in range(self.rng.randint(1, 4)):
            self.stmt(pool, lines, "  ", 1)
        self.cfg.calls = saved[0]
        r = self.pick(pool, "i32", lines, "  ")
        body = "\n".join(lines)
        self.helpers.append(name)
        return f"func.func @{name}(%h0: i32, %h1: i32) -> i32 {{\n{body}\n  func.return {r} : i32\n}}\n"

    def recursive_helper(self) -> str:
        """A directly recursive function (decreasing counter) in which values defined before the
        recursive call are used after it; scf.if or cf.cond_br flavour.  Bounded depth: callers pass
        a small non-negative first argument (masked with `andi 3`)."""
        name = f"helper{len(self.helpers)}"
        op1 = self.rng.choice(["addi", "muli", "xori", "subi"])
        op2 = self.rng.choice(["addi", "subi", "xori", "muli"])
        k = self.rng.choice([1, 2, 3, 5, 7])
        pre = (f"  %z = arith.constant 0 : i32\n  %o = arith.constant 1 : i32\n  %k = arith.constant {k} : i32\n"
               f"  %m = arith.constant 3 : i32\n  %n = arith.andi %h0, %m : i32\n"
               f"  %done = arith.cmpi eq, %n, %z : i32\n")
        rec = (f"    %n1 = arith.subi %n, %o : i32\n    %x = arith.{op1} %h1, %k : i32\n"
               f"    %rr = func.call @{name}(%n1, %x) : (i32, i32) -> i32\n"
               f"    %y = arith.{op2} %rr, %x : i32\n    %y2 = arith.addi %y, %n : i32\n")
        if self.cfg.scf_if and self.rng.random() < 0.5:
            body = (pre + "  %r = scf.if %done -> (i32) {\n    scf.yield %h1 : i32\n  } else {\n" + rec
                    + "    scf.yield %y2 : i32\n  }\n  func.return %r : i32\n")
        else:
            body = (pre + "  cf.cond_br %done, ^base, ^rec\n^base:\n  func.return %h1 : i32\n^rec:\n"
                    + rec.replace("    ", "  ") + "  func.return %y2 : i32\n")
        self.helpers.append(name)
        return f"func.func @{name}(%h0: i32, %h1: i32) -> i32 {{\n{body}}}\n"

    def program(self) -> dict[str, Any]:
        c = self.cfg
        self.n = 0; self.nb = 0; self.ext_sigs = {}; self.helpers = []
        funcs: list[str] = []
        if c.calls and self.rng.random() < 0.4:
            funcs.append(self.helper())
        if c.calls and (c.cf or c.scf_if) and self.rng.random() < 0.35:
            funcs.append(self.recursive_helper())
        all_t = c.int_types + c.float_types
        arg_tys = [self.rng.choice(all_t) for _ in range(self.rng.randint(1, 4))]
        args = [f"%a{i}" for i in range(len(arg_tys))]
        pool: dict[str, list[str]] = {}
        for a, t in zip(args, arg_tys):
            pool.setdefault(t, []).append(a)
            if t == "index":
                pool.setdefault("__small_index", []).append(a)
        lines: list[str] = []
        nst = self.rng.randint(2, c.max_stmts)
        for _ in range(nst):
            r = self.rng.random()
            if c.cf and r < 0.12:
                self.cfg_diamond(pool, lines)
            elif c.cf and r < 0.22:
                self.cfg_loop(pool, lines)
            else:
                self.stmt(pool, lines, "  ", 0)
        ret_tys = [self.rng.choice(all_t) for _ in range(self.rng.randint(1, 3))]
        rets = [self.pick(pool, t, lines, "  ") for t in ret_tys]
        sig = ", ".join(f"{a}: {t}" for a, t in zip(args, arg_tys))
        main = (f"func.func @main({sig}) -> ({', '.join(ret_tys)}) {{\n" + "\n".join(lines)
                + f"\n  func.return {', '.join(rets)} : {', '.join(ret_tys)}\n}}\n")
        funcs.append(main)
        for name, t in sorted(self.ext_sigs.items()):
            funcs.append(f"func.func private @{name}({t}) -> ()\n")
        return {"text": "builtin.module {\n" + "".join(funcs) + "}\n", "arg_types": arg_tys, "ret_types": ret_tys}

    def inputs(self, arg_tys: list[str], n: int) -> list[list[Any]]:
        out = []
        for _ in range(n):
            vec: list[Any] = []
            for t in arg_tys:
                if t in ("f32", "f64"):
                    v = self.rng.choice([0.0, -0.0, 1.0, -1.5, 2.0, 1e10, math.inf, -math.inf, math.nan, 0.1, 16777216.0, self.rng.uniform(-100, 100)])
                    if t == "f32" and not math.isnan(v) and not math.isinf(v):
                        v = struct.unpack("<f", struct.pack("<f", v))[0]
                    vec.append(v)
                elif t == "index":
                    vec.append(self.rng.choice([-3, -1, 0, 1, 2, 3, 5, 8, 10]))
                else:
                    w = width(t)
                    lo, hi = -(1 << (w - 1)), (1 << (w - 1)) - 1
                    vec.append(self.rng.choice([lo, hi, -1, 0, 1, 2, 3, self.rng.randint(lo, hi), self.rng.randint(max(lo, -20), min(hi, 20))]) if w > 1 else self.rng.choice([0, -1]))
            out.append(vec)
        return out


def parse_module(text: str) -> Any:
    from xdsl.context import Context
    from xdsl.dialects import arith, builtin, cf, func, scf
    from xdsl.parser import Parser

    ctx = Context()
    for d in (builtin.Builtin, arith.Arith, func.Func, cf.Cf, scf.Scf):
        ctx.load_dialect(d)
    m = Parser(ctx, text).parse_module()
    m.verify()
    return m
