"""
Python-AST → Lean 4 translator for the pure-integer kernels of xDSL.

Trusted-base statement (DESIGN.md §3.3): this file maps a *whitelisted* AST fragment to Lean over
unbounded `Int`/`Bool`.  Anything outside the fragment raises `TranslationError` — nothing is
guessed.  Python operators are mapped to the primitives of `lean/XdslModel/PyInt.lean`
(`//`→`Py.floordiv` (floor), `%`→`Py.mod` (sign of divisor), `& | ^ ~ << >>`→`Py.land/lor/xor/lnot/
shl/shr`).  The generated definitions are themselves cross-checked against the real functions by the
correspondence checks (exhaustive narrow widths + boundary values).

Fragment:
  statements : assignment to a name / tuple of names, annotated declaration without value (skipped),
               docstring (skipped), `assert` (type-level asserts listed in `skip_asserts` are
               skipped, others become the Boolean `<fn>_pre`), `if/elif/else`, `match` on int
               literals with `case _`, `return e` / `return (e,)` / `return None`, `raise` (→ none),
               `return C(e, T[, truncate_bits=<bool literal>])` for a constructor `C` named in the
               function's `ret_ctor` (the integer-attribute constructor; the translated function
               returns the payload `C` normalises `e` to at the width of `T`, `none` where `C` raises)
  expressions: int/bool literals, names, `+ - * // % & | ^ << >> **`(constant base 2), unary `- ~ not`,
               comparisons (chained), `and/or`, conditional expression, calls to `abs/min/max` and to
               other translated functions, plus per-function *substitutions* that map a source
               sub-expression (by its `ast.unparse` text) to a Lean parameter.
"""
from __future__ import annotations

import ast
from dataclasses import dataclass, field


class TranslationError(Exception):
    pass


@dataclass
class FnSpec:
    py_name: str  # function or Class.method
    lean_name: str
    params: list[tuple[str, str]]  # (lean param name, lean type) in order
    # unparse-text of a Python expression -> (lean term, type 'int'|'bool'|'pair')
    subst: dict[str, tuple[str, str]] = field(default_factory=dict)
    # python parameter names that are bound directly (same name in lean)
    skip_asserts: tuple[str, ...] = ("isa(", "len(args)", "isinstance(")
    tuple_unpack_of: dict[str, list[str]] = field(default_factory=dict)  # e.g. {"args": ["a","b"]}
    # constructor name -> (lean function `width value truncate_bits : Option Int`, {type name: width}):
    # `return C(e, T, truncate_bits=b)` becomes `<lean function> <width of T> e b`
    ret_ctor: dict[str, tuple[str, dict[str, int]]] = field(default_factory=dict)


KNOWN_CALLS_PRIM = {"abs": ("Py.abs", 1), "min": ("Py.min", 2), "max": ("Py.max", 2)}


class FnTranslator:
    def __init__(self, spec: FnSpec, known_fns: dict[str, tuple[str, int, str]]):
        # known_fns: python callee name -> (lean name, arity, return type 'int'|'bool'|'optint'|'pair')
        self.spec = spec
        self.known = known_fns
        self.pre: list[str] = []
        self.mode = "val"  # or "pre": translate to the conjunction of the asserts reached
        self.uses_option = False
        self.ret_type: str | None = None

    # ---------------------------------------------------------------- expressions
    def expr(self, e: ast.expr, env: dict[str, str]) -> tuple[str, str]:
        txt = ast.unparse(e)
        if txt in self.spec.subst:
            return self.spec.subst[txt]
        if isinstance(e, ast.Constant):
            if isinstance(e.value, bool):
                return ("true" if e.value else "false", "bool")
            if isinstance(e.value, int):
                return (f"({e.value} : Int)", "int")
            raise TranslationError(f"constant {e.value!r}")
        if isinstance(e, ast.Name):
            if e.id in env:
                return (e.id, env[e.id])
            raise TranslationError(f"unbound name {e.id}")
        if isinstance(e, ast.Tuple):
            if len(e.elts) == 2:
                a, ta = self.expr(e.elts[0], env)
                b, tb = self.expr(e.elts[1], env)
                if ta == tb == "int":
                    return (f"({a}, {b})", "pair")
            raise TranslationError("tuple expression")
        if isinstance(e, ast.UnaryOp):
            v, t = self.expr(e.operand, env)
            if isinstance(e.op, ast.USub) and t == "int":
                return (f"(-{v})", "int")
            if isinstance(e.op, ast.Invert) and t == "int":
                return (f"(Py.lnot {v})", "int")
            if isinstance(e.op, ast.Not):
                return (f"(!{self.as_bool(v, t)})", "bool")
            raise TranslationError(f"unary {ast.dump(e.op)}")
        if isinstance(e, ast.BinOp):
            if isinstance(e.op, ast.Pow):
                b, tb = self.expr(e.left, env)
                x, tx = self.expr(e.right, env)
                if tb == tx == "int":
                    return (f"({b} ^ ({x}).toNat)", "int")
                raise TranslationError("pow")
            a, ta = self.expr(e.left, env)
            b, tb = self.expr(e.right, env)
            if ta != "int" or tb != "int":
                raise TranslationError(f"arithmetic on non-int in {txt}")
            table = {
                ast.Add: "({} + {})", ast.Sub: "({} - {})", ast.Mult: "({} * {})",
                ast.FloorDiv: "(Py.floordiv {} {})", ast.Mod: "(Py.mod {} {})",
                ast.BitAnd: "(Py.land {} {})", ast.BitOr: "(Py.lor {} {})", ast.BitXor: "(Py.xor {} {})",
                ast.LShift: "(Py.shl {} {})", ast.RShift: "(Py.shr {} {})",
            }
            for k, fmt in table.items():
                if isinstance(e.op, k):
                    return (fmt.format(a, b), "int")
            raise TranslationError(f"binop {ast.dump(e.op)}")
        if isinstance(e, ast.Compare):
            parts = []
            left = e.left
            for op, right in zip(e.ops, e.comparators):
                a, ta = self.expr(left, env)
                b, tb = self.expr(right, env)
                if ta != tb:
                    raise TranslationError(f"comparison of {ta} with {tb} in {txt}")
                if isinstance(op, ast.Eq):
                    parts.append(f"({a} == {b})")
                elif isinstance(op, ast.NotEq):
                    parts.append(f"({a} != {b})")
                elif ta == "int":
                    sym = {ast.Lt: "<", ast.LtE: "≤", ast.Gt: ">", ast.GtE: "≥"}.get(type(op))
                    if sym is None:
                        raise TranslationError(f"comparison op {ast.dump(op)}")
                    parts.append(f"(decide ({a} {sym} {b}))")
                else:
                    raise TranslationError(f"ordering on {ta}")
                left = right
            return ("(" + " && ".join(parts) + ")" if len(parts) > 1 else parts[0], "bool")
        if isinstance(e, ast.BoolOp):
            vals = [self.as_bool(*self.expr(v, env)) for v in e.values]
            j = " && " if isinstance(e.op, ast.And) else " || "
            return ("(" + j.join(vals) + ")", "bool")
        if isinstance(e, ast.IfExp):
            c = self.as_bool(*self.expr(e.test, env))
            a, ta = self.expr(e.body, env)
            b, tb = self.expr(e.orelse, env)
            if ta != tb:
                raise TranslationError("if-expression branches of different type")
            return (f"(if {c} then {a} else {b})", ta)
        if isinstance(e, ast.Call) and isinstance(e.func, ast.Name) and not e.keywords:
            name = e.func.id
            args = [self.expr(a, env) for a in e.args]
            if name in KNOWN_CALLS_PRIM and KNOWN_CALLS_PRIM[name][1] == len(args) and all(t == "int" for _, t in args):
                return (f"({KNOWN_CALLS_PRIM[name][0]} " + " ".join(a for a, _ in args) + ")", "int")
            if name in self.known:
                lname, arity, rt = self.known[name]
                if arity != len(args) or not all(t == "int" for _, t in args):
                    raise TranslationError(f"call {txt}: arity/type")
                if rt == "optint":
                    raise TranslationError(f"call to partial function {name} inside an expression")
                return (f"({lname} " + " ".join(a for a, _ in args) + ")", rt)
        raise TranslationError(f"unsupported expression: {txt}")

    @staticmethod
    def as_bool(v: str, t: str) -> str:
        if t == "bool":
            return v
        if t == "int":
            return f"({v} != 0)"  # Python truthiness of an int
        raise TranslationError("truthiness of " + t)

    # ---------------------------------------------------------------- statements
    def ret(self, v: str, t: str) -> str:
        if self.mode == "pre":
            return "true"
        if self.ret_type is None:
            self.ret_type = t
        elif self.ret_type != t:
            raise TranslationError(f"return types differ: {self.ret_type} vs {t}")
        return f"(some {v})" if self.uses_option else v

    def ctor_return(self, c: ast.Call, env: dict[str, str]) -> str:
        """`return C(e, T[, truncate_bits=b])`: the payload the constructor normalises `e` to (Option)"""
        lname, widths = self.spec.ret_ctor[c.func.id]  # type: ignore[union-attr]
        if len(c.args) != 2 or not isinstance(c.args[1], ast.Name) or c.args[1].id not in widths:
            raise TranslationError("constructor call " + ast.unparse(c))
        tb = "false"
        for k in c.keywords:
            if k.arg == "truncate_bits" and isinstance(k.value, ast.Constant) and isinstance(k.value.value, bool):
                tb = "true" if k.value.value else "false"
            else:
                raise TranslationError("constructor keyword in " + ast.unparse(c))
        v, t = self.expr(c.args[0], env)
        if t != "int":
            raise TranslationError("constructor payload of type " + t)
        if self.mode == "pre":
            return "true"
        if not self.uses_option:
            raise TranslationError("constructor return in a total function")
        if self.ret_type is None:
            self.ret_type = "int"
        elif self.ret_type != "int":
            raise TranslationError(f"return types differ: {self.ret_type} vs int")
        return f"({lname} ({widths[c.args[1].id]} : Int) {v} {tb})"

    def stmts(self, ss: list[ast.stmt], env: dict[str, str], ind: str) -> str:
        if not ss:
            raise TranslationError("fell off the end of a function without return")
        s, rest = ss[0], ss[1:]
        if isinstance(s, ast.Expr) and isinstance(s.value, ast.Constant) and isinstance(s.value.value, str):
            return self.stmts(rest, env, ind)
        if isinstance(s, ast.AnnAssign) and s.value is None:
            return self.stmts(rest, env, ind)
        if isinstance(s, ast.Assert):
            txt = ast.unparse(s.test)
            if any(k in txt for k in self.spec.skip_asserts):
                return self.stmts(rest, env, ind)
            c = self.as_bool(*self.expr(s.test, env))
            self.pre.append(c)
            if self.mode == "pre":
                return f"{ind}({c} && (\n" + self.stmts(rest, env, ind + "  ") + "))"
            return self.stmts(rest, env, ind)
        if isinstance(s, ast.Assign):
            if len(s.targets) != 1:
                raise TranslationError("multiple assignment targets")
            t = s.targets[0]
            if isinstance(t, ast.Tuple):
                src = ast.unparse(s.value)
                names = [x.id for x in t.elts if isinstance(x, ast.Name)]
                if len(names) != len(t.elts):
                    raise TranslationError("tuple target")
                if src in self.spec.tuple_unpack_of:
                    srcs = self.spec.tuple_unpack_of[src]
                    if len(srcs) != len(names):
                        raise TranslationError("tuple unpack arity")
                    env2 = dict(env)
                    out = ""
                    for n, sname in zip(names, srcs):
                        out += f"{ind}let {n} := {sname}\n"
                        env2[n] = "int"
                    return out + self.stmts(rest, env2, ind)
                v, ty = self.expr(s.value, env)
                if ty == "pair" and len(names) == 2:
                    env2 = dict(env)
                    env2[names[0]] = env2[names[1]] = "int"
                    return f"{ind}let ({names[0]}, {names[1]}) := {v}\n" + self.stmts(rest, env2, ind)
                raise TranslationError("tuple assignment from " + src)
            if not isinstance(t, ast.Name):
                raise TranslationError("assignment target")
            v, ty = self.expr(s.value, env)
            env2 = dict(env)
            env2[t.id] = ty
            return f"{ind}let {t.id} := {v}\n" + self.stmts(rest, env2, ind)
        if isinstance(s, ast.If):
            c = self.as_bool(*self.expr(s.test, env))
            # the continuation `rest` is duplicated into both branches: exact, and keeps the
            # translator free of any phi/SSA reasoning
            th = self.stmts(s.body + rest, env, ind + "  ")
            el = self.stmts((s.orelse or []) + rest, env, ind + "  ")
            return f"{ind}if {c} then\n{th}\n{ind}else\n{el}"
        if isinstance(s, ast.Match):
            subj, st = self.expr(s.subject, env)
            if st != "int":
                raise TranslationError("match subject")
            out = ""
            default = None
            arms = []
            for case in s.cases:
                if case.guard is not None:
                    raise TranslationError("match guard")
                p = case.pattern
                if isinstance(p, ast.MatchValue) and isinstance(p.value, ast.Constant) and isinstance(p.value.value, int):
                    arms.append((p.value.value, case.body))
                elif isinstance(p, ast.MatchAs) and p.pattern is None and p.name is None:
                    default = case.body
                else:
                    raise TranslationError("match pattern " + ast.unparse(p))
            if default is None:
                default = rest
                if not rest:
                    raise TranslationError("match without default")
            code = self.stmts(default + ([] if default is rest else rest), env, ind + "  ")
            for k, body in reversed(arms):
                b = self.stmts(body + rest, env, ind + "  ")
                code = f"{ind}if ({subj} == ({k} : Int)) then\n{b}\n{ind}else\n{code}"
            return out + code
        if isinstance(s, ast.Return):
            if s.value is None or (isinstance(s.value, ast.Constant) and s.value.value is None):
                if self.mode == "pre":
                    return f"{ind}true"
                if not self.uses_option:
                    raise TranslationError("return None in a total function")
                return f"{ind}none"
            v = s.value
            if isinstance(v, ast.Tuple) and len(v.elts) == 1:
                v = v.elts[0]
            if isinstance(v, ast.Call) and isinstance(v.func, ast.Name) and v.func.id in self.spec.ret_ctor:
                return ind + self.ctor_return(v, env)
            val, ty = self.expr(v, env)
            return ind + self.ret(val, ty)
        if isinstance(s, ast.Pass):
            return self.stmts(rest, env, ind)
        if isinstance(s, ast.Raise):
            if self.mode == "pre":
                return f"{ind}true"
            if not self.uses_option:
                raise TranslationError("raise in a total function")
            return f"{ind}none"
        raise TranslationError("unsupported statement: " + ast.unparse(s).splitlines()[0])



def _rel_source(path: object) -> str:
    """source path as written into generated headers: relative to the repository root (`xdsl/...`), so that the
    generated text depends on the code only, not on where the tree is checked out"""
    t = str(path)
    k = t.rfind("/xdsl/")
    return t[k + 1:] if k >= 0 else t


def _needs_option(fn: ast.FunctionDef) -> bool:
    for n in ast.walk(fn):
        if isinstance(n, ast.Raise):
            return True
        if isinstance(n, ast.Return) and (n.value is None or (isinstance(n.value, ast.Constant) and n.value.value is None)):
            return True
    return False


def find_function(tree: ast.Module, dotted: str) -> ast.FunctionDef:
    parts = dotted.split(".")
    body = tree.body
    node = None
    for p in parts:
        node = next((n for n in body if isinstance(n, (ast.FunctionDef, ast.ClassDef)) and n.name == p), None)
        if node is None:
            raise TranslationError(f"{dotted}: not found")
        body = node.body
    if not isinstance(node, ast.FunctionDef):
        raise TranslationError(f"{dotted}: not a function")
    return node


def translate_function(tree: ast.Module, spec: FnSpec, known: dict[str, tuple[str, int, str]]) -> tuple[str, str]:
    """returns (lean source of def [+ _pre def], return type tag)"""
    fn = find_function(tree, spec.py_name)
    tr = FnTranslator(spec, known)
    tr.uses_option = _needs_option(fn) or bool(spec.ret_ctor)
    env = {n: ("int" if ty == "Int" else "bool") for n, ty in spec.params}
    body = tr.stmts(fn.body, env, "  ")
    rt = tr.ret_type
    if rt is None:
        raise TranslationError(f"{spec.py_name}: no return")
    lty = {"int": "Int", "bool": "Bool", "pair": "Int × Int"}[rt]
    if tr.uses_option:
        lty = f"Option ({lty})"
    params = " ".join(f"({n} : {t})" for n, t in spec.params)
    src = f"/-- translated from `{spec.py_name}` -/\ndef {spec.lean_name} {params} : {lty} :=\n{body}\n"
    if tr.pre:
        tp = FnTranslator(spec, known)
        tp.uses_option = tr.uses_option
        tp.mode = "pre"
        pbody = tp.stmts(fn.body, dict(env), "  ")
        src += f"\n/-- the `assert`s of `{spec.py_name}` reached on these arguments (Python raises AssertionError when false) -/\n"
        src += f"def {spec.lean_name}_pre {params} : Bool :=\n{pbody}\n"
    tag = ("opt" if tr.uses_option else "") + rt
    return src, tag


def lean_module(namespace: str, imports: list[str], defs: list[str], source_files: list[str]) -> str:
    hdr = "".join(f"import {i}\n" for i in imports)
    hdr += "/-! GENERATED by harness/translate/py2lean.py from:\n" + "".join(f"  {_rel_source(s)}\n" for s in source_files) + "Do not edit; regenerated on every check run. -/\n"
    hdr += "set_option linter.unusedVariables false\n"
    hdr += f"namespace {namespace}\nopen Xdsl\n\n"
    return hdr + "\n".join(defs) + f"\nend {namespace}\n"
