"""
Regenerate lean/XdslModel/Generated/*.lean from the current /repo sources.
Run on every C14/C15/C22 check (and by setup).  Files are rewritten only when their content changes so
that lake stays incremental.  A function the translator refuses is left out and reported.
"""
from __future__ import annotations

import ast
import json
import os
import sys
from pathlib import Path

from translate.py2lean import FnSpec, TranslationError, lean_module, translate_function

VERIF = Path(__file__).resolve().parents[2]
GEN = VERIF / "lean" / "XdslModel" / "Generated"

INT_BIN = ["subi", "addi", "muli", "andi", "ori", "xori", "shlsi", "shrsi", "divsi", "remsi", "floordivsi"]

W_SUBST = {
    "_int_bitwidth(interpreter, op.result.type)": ("w", "int"),
    "_int_bitwidth(interpreter, op.lhs.type)": ("w", "int"),
    "_int_bitwidth(interpreter, op.input.type)": ("wi", "int"),
    "args[0]": ("a", "int"),
    "args[1]": ("b", "int"),
    "op.predicate.value.data": ("p", "int"),
}


def comparisons_specs() -> list[FnSpec]:
    one = [("bitwidth", "Int")]
    two = [("signless", "Int"), ("bitwidth", "Int")]
    return [
        FnSpec("unsigned_upper_bound", "unsigned_upper_bound", one),
        FnSpec("signed_lower_bound", "signed_lower_bound", one),
        FnSpec("signed_upper_bound", "signed_upper_bound", one),
        FnSpec("unsigned_value_range", "unsigned_value_range", one),
        FnSpec("signed_value_range", "signed_value_range", one),
        FnSpec("signless_value_range", "signless_value_range", one),
        FnSpec("to_unsigned", "to_unsigned", two),
        FnSpec("to_signed", "to_signed", two),
    ]


NV_SIGNLESS = "Xdsl.Generated.BuiltinInt.normalized_value_signless"


def riscv_kernels(repo: Path, known: dict, dispatch: list, report: dict) -> list[str]:
    """lean/XdslModel/Generated/RiscvPyOps.lean.  `IntegerAttr(e, i32|i64[, truncate_bits=b])` in return
    position is the payload `IntegerType.normalized_value` (as translated in BuiltinInt.lean) gives `e`;
    `none` = the constructor raises (VerifyException: out of range)."""
    ns = "Xdsl.Generated.RiscvPyOps"
    ctor = {"IntegerAttr": (NV_SIGNLESS, {"i32": 32, "i64": 64})}
    defs: list[str] = []
    srcs: list[str] = []

    def add(tree: ast.Module, sp: FnSpec) -> None:
        try:
            code, tag = translate_function(tree, sp, known)
        except TranslationError as e:
            report["refused"][f"{ns}.{sp.lean_name}"] = str(e)
            return
        defs.append(code)
        dispatch.append((f"{ns}.{sp.lean_name}", sp.params, tag, f"def {sp.lean_name}_pre " in code))
        report["translated"].append(f"{ns}.{sp.lean_name}")

    def abstract(m: ast.FunctionDef) -> bool:
        return any("abstractmethod" in ast.unparse(d) for d in m.decorator_list)

    for mod in ("rv32", "rv64"):
        f = repo / f"xdsl/dialects/{mod}.py"
        srcs.append(str(f))
        t = ast.parse(f.read_text())
        for c in t.body:
            if not isinstance(c, ast.ClassDef):
                continue
            for m in c.body:
                if isinstance(m, ast.FunctionDef) and m.name == "py_operation" and not abstract(m):
                    add(t, FnSpec(f"{c.name}.py_operation", f"{mod}_{c.name}_py_operation", [("rs1", "Int"), ("imm", "Int")],
                                  subst={"rs1.value.data": ("rs1", "int"), "self.immediate.value.data": ("imm", "int")},
                                  ret_ctor=ctor))
    f = repo / "xdsl/dialects/riscv_cf.py"
    srcs.append(str(f))
    t = ast.parse(f.read_text())
    for c in t.body:
        if not isinstance(c, ast.ClassDef):
            continue
        for m in c.body:
            if isinstance(m, ast.FunctionDef) and m.name == "const_evaluate" and not abstract(m):
                add(t, FnSpec(f"{c.name}.const_evaluate", f"cf_{c.name}_const_evaluate",
                              [("rs1", "Int"), ("rs2", "Int"), ("bitwidth", "Int")]))
    f = repo / "xdsl/transforms/canonicalization_patterns/riscv.py"
    srcs.append(str(f))
    t = ast.parse(f.read_text())
    add(t, FnSpec("_fits_si12", "fits_si12", [("value", "Int")]))
    all32 = ast.unparse(ast.parse("all(source.type == i32 for source in sources)", mode="eval").body)
    add(t, FnSpec("_folded_li_immediate", "folded_li_immediate", [("value", "Int"), ("all32", "Bool")],
                  subst={all32: ("all32", "bool")}, ret_ctor=ctor))
    text = lean_module(ns, ["XdslModel.PyInt", "XdslModel.Generated.Comparisons", "XdslModel.Generated.BuiltinInt"], defs, srcs)
    p = GEN / "RiscvPyOps.lean"
    if not p.exists() or p.read_text() != text:
        p.write_text(text)
        return ["RiscvPyOps.lean"]
    return []


def generate(repo: Path) -> dict:
    report: dict = {"refused": {}, "translated": [], "changed_files": []}
    dispatch: list[tuple[str, list[tuple[str, str]], str, bool]] = []  # (qualified lean name, params, tag, has_pre)
    GEN.mkdir(parents=True, exist_ok=True)

    def emit(fname: str, ns: str, imports: list[str], specs: list[FnSpec], tree: ast.Module, known: dict, srcs: list[str]) -> dict:
        defs = []
        for sp in specs:
            try:
                code, tag = translate_function(tree, sp, known)
            except TranslationError as e:
                report["refused"][f"{ns}.{sp.lean_name}"] = str(e)
                continue
            defs.append(code)
            dispatch.append((f"{ns}.{sp.lean_name}", sp.params, tag, f"def {sp.lean_name}_pre " in code))
            short = sp.py_name.split(".")[-1]
            known = dict(known)
            known[short] = (f"{ns}.{sp.lean_name}", len(sp.params), {"int": "int", "bool": "bool", "pair": "pair", "optint": "optint", "optbool": "optbool"}.get(tag, tag))
            report["translated"].append(f"{ns}.{sp.lean_name}")
        text = lean_module(ns, imports, defs, srcs)
        p = GEN / fname
        if not p.exists() or p.read_text() != text:
            p.write_text(text)
            report["changed_files"].append(fname)
        return known

    # 1. utils/comparisons.py
    f1 = repo / "xdsl/utils/comparisons.py"
    t1 = ast.parse(f1.read_text())
    known = emit("Comparisons.lean", "Xdsl.Generated.Comparisons", ["XdslModel.PyInt"], comparisons_specs(), t1, {}, [str(f1)])

    # 2. interpreters/arith.py
    f2 = repo / "xdsl/interpreters/arith.py"
    t2 = ast.parse(f2.read_text())
    specs = [
        FnSpec("_sign_extend", "_sign_extend", [("value", "Int"), ("from_bitwidth", "Int")]),
        FnSpec("_truncate", "_truncate", [("value", "Int"), ("to_bitwidth", "Int")]),
    ]
    cls = next(n for n in t2.body if isinstance(n, ast.ClassDef) and n.name == "ArithFunctions")
    for m in cls.body:
        if not isinstance(m, ast.FunctionDef) or not m.name.startswith("run_"):
            continue
        name = m.name
        if name in ("run_constant", "run_subf", "run_addf", "run_mulf", "run_divf", "run_minimumf", "run_maximumf", "run_cmpf",
                    "run_negf", "run_sitofp", "run_fptosi", "run_extf", "run_truncf", "run_select"):
            continue  # float / non-integer kernels are not in the translated fragment (correspondence only)
        if name == "run_cmpi":
            params = [("w", "Int"), ("p", "Int"), ("a", "Int"), ("b", "Int")]
        elif name in ("run_indexcast", "run_extsi", "run_extui", "run_trunci"):
            params = [("wi", "Int"), ("w", "Int"), ("a", "Int")]
        else:
            params = [("w", "Int"), ("a", "Int"), ("b", "Int")]
        subst = dict(W_SUBST)
        if params[0][0] == "wi":
            subst["_int_bitwidth(interpreter, op.result.type)"] = ("w", "int")
        specs.append(FnSpec(f"ArithFunctions.{name}", name, params, subst=subst,
                            tuple_unpack_of={"args": ["a", "b"]}))
    emit("ArithInterp.lean", "Xdsl.Generated.ArithInterp", ["XdslModel.PyInt", "XdslModel.Generated.Comparisons"], specs, t2, known, [str(f2)])

    # 3. dialects/arith.py static kernels + IntegerType.normalized_value (signless case)
    f3 = repo / "xdsl/dialects/arith.py"
    t3 = ast.parse(f3.read_text())
    specs3 = []
    for c in t3.body:
        if not isinstance(c, ast.ClassDef):
            continue
        for m in c.body:
            if isinstance(m, ast.FunctionDef) and m.name in ("py_operation", "is_right_unit", "is_right_zero") and c.name != "SignlessIntegerBinaryOperation":
                if m.name == "py_operation":
                    specs3.append(FnSpec(f"{c.name}.{m.name}", f"{c.name}_{m.name}", [("lhs", "Int"), ("rhs", "Int")]))
                else:
                    specs3.append(FnSpec(f"{c.name}.{m.name}", f"{c.name}_{m.name}", [("w", "Int"), ("c", "Int")],
                                         subst={"attr.value.data": ("c", "int"),
                                                "attr == IntegerAttr(1, attr.type)": ("(c == normalized_one w)", "bool")}))
    f4 = repo / "xdsl/dialects/builtin.py"
    t4 = ast.parse(f4.read_text())
    nv = FnSpec("IntegerType.normalized_value", "normalized_value_signless",
                [("bitwidth", "Int"), ("value", "Int"), ("truncate_bits", "Bool")],
                subst={"self.value_range()": ("(Comparisons.signless_value_range bitwidth)", "pair"),
                       "self.bitwidth": ("bitwidth", "int"),
                       "self.signedness.data != Signedness.UNSIGNED": ("true", "bool")})
    known3 = emit("BuiltinInt.lean", "Xdsl.Generated.BuiltinInt", ["XdslModel.PyInt", "XdslModel.Generated.Comparisons"], [nv], t4, known, [str(f4)])
    pre = ("/-- `IntegerAttr(1, ty).value.data` for a signless integer type of width `w` -/\n"
           "def normalized_one (w : Int) : Int := (BuiltinInt.normalized_value_signless w 1 false).getD 1\n")
    # emit arith kernels with the helper definition prepended
    defs_holder: list[str] = []
    knownA = dict(known3)
    textdefs = [pre]
    for sp in specs3:
        try:
            code, tag = translate_function(t3, sp, knownA)
            textdefs.append(code)
            dispatch.append((f"Xdsl.Generated.ArithPyOps.{sp.lean_name}", sp.params, tag, False))
            report["translated"].append(f"Xdsl.Generated.ArithPyOps.{sp.lean_name}")
        except TranslationError as e:
            report["refused"][f"Xdsl.Generated.ArithPyOps.{sp.lean_name}"] = str(e)
    text = lean_module("Xdsl.Generated.ArithPyOps", ["XdslModel.PyInt", "XdslModel.Generated.Comparisons", "XdslModel.Generated.BuiltinInt"], textdefs, [str(f3), str(f4)])
    text = text.replace("open Xdsl\n", "open Xdsl Xdsl.Generated\n")
    p = GEN / "ArithPyOps.lean"
    if not p.exists() or p.read_text() != text:
        p.write_text(text)
        report["changed_files"].append("ArithPyOps.lean")
    # 4. RISC-V dialect kernels (C22): py_operation of the rv32/rv64 immediate shifts and single-bit ops,
    #    const_evaluate of the riscv_cf branches, and the two integer helpers of the canonicalization patterns
    report["changed_files"] += riscv_kernels(repo, known, dispatch, report)
    # dispatch table for the driver: one arm per translated function
    arms = []
    def show(tag: str, call: str) -> str:
        return {"int": f's!"int {{{call}}}"', "bool": f's!"bool {{{call}}}"',
                "pair": f's!"pair {{({call}).1}} {{({call}).2}}"',
                "optint": f'(match {call} with | some v => s!"int {{v}}" | none => "none")',
                "optbool": f'(match {call} with | some v => s!"bool {{v}}" | none => "none")'}[tag]
    for q, params, tag, has_pre in dispatch:
        short = q.replace("Xdsl.Generated.", "")
        names = [f"x{i}" for i in range(len(params))]
        actual = " ".join((n if t == "Int" else f"({n} != 0)") for n, (_, t) in zip(names, params))
        arms.append(f'  | "{short}", [{", ".join(names)}] => some {show(tag, f"{q} {actual}")}')
        if has_pre:
            arms.append(f'  | "{short}_pre", [{", ".join(names)}] => some {show("bool", f"{q}_pre {actual}")}')
    dtext = ("import XdslModel.Generated.Comparisons\nimport XdslModel.Generated.ArithInterp\nimport XdslModel.Generated.BuiltinInt\nimport XdslModel.Generated.ArithPyOps\nimport XdslModel.Generated.RiscvPyOps\n"
             "/-! GENERATED dispatch table (harness/translate/generate.py). -/\nnamespace Xdsl.Generated\n\n"
             "def call (name : String) (args : List Int) : Option String :=\n  match name, args with\n" + "\n".join(arms) + "\n  | _, _ => none\n\nend Xdsl.Generated\n")
    p = GEN / "Dispatch.lean"
    if not p.exists() or p.read_text() != dtext:
        p.write_text(dtext)
        report["changed_files"].append("Dispatch.lean")
    (GEN / "report.json").write_text(json.dumps(report, indent=1))
    return report


if __name__ == "__main__":
    r = generate(Path(os.environ.get("XDSL_REPO", "/repo")))
    print(json.dumps(r, indent=1))
