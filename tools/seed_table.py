#!/usr/bin/env python3
"""tools/seed_table.py — regenerate the table of seeded changes in DESIGN.md (between the markers
<!-- SEED-TABLE-BEGIN --> / <!-- SEED-TABLE-END -->) from seeded/*/meta.json, and seeded/INDEX.md."""
import glob, json, os, re
V = os.path.dirname(os.path.dirname(os.path.abspath(__file__)))
rows = []
for m in sorted(glob.glob(os.path.join(V, "seeded", "*", "meta.json"))):
    name = os.path.basename(os.path.dirname(m))
    d = json.load(open(m))
    c = d.get("confirmed", {})
    what = re.sub(r"\s+", " ", d.get("what_breaks", "")).replace("|", "/")
    what = what[:150] + ("…" if len(what) > 150 else "")
    files = ", ".join(os.path.basename(f) for f in d.get("files", []))
    reps = c.get("replays") or []
    if c.get("caught"):
        r0 = next((r for r in reps if isinstance(r, dict)), None)
        by = f"`./check {d.get('property')}` quick: {r0['kind']} at `{r0['call_site'].split('.')[-2] + '.' + r0['call_site'].split('.')[-1] if '.' in r0['call_site'] else r0['call_site']}` — {r0['signature'][:90]}" if r0 else "quick check"
        by = by.replace("|", "/")
    elif d.get("outside_property"):
        by = "outside the property sentence (see meta.json note); not claimed"
    else:
        by = "**not yet caught** (exit %s)" % c.get("check_exit")
    ok = all(c.get(k) for k in ("demo_passes_on_repo", "demo_fails_with_patch", "suite_passes_with_patch"))
    rows.append((name, files, what, by, "yes" if ok else "NO"))
tbl = ["| seed | file(s) | change | confirmed (demo ±, suite green) | caught by |", "|---|---|---|---|---|"]
for n, f, w, b, ok in rows:
    tbl.append(f"| {n} | {f} | {w} | {ok} | {b} |")
outside = sum(1 for r in rows if "outside the property" in r[3])
caught = sum(1 for r in rows if "not yet caught" not in r[3] and "outside the property" not in r[3])
summary = f"{len(rows)} seeded changes, {caught} caught by the quick tier of the property's check, {len(rows) - caught - outside} not yet caught, {outside} judged outside their property sentence."
text = summary + "\n\n" + "\n".join(tbl) + "\n"
open(os.path.join(V, "seeded", "INDEX.md"), "w").write("# Seeded changes\n\n" + text)
p = os.path.join(V, "DESIGN.md")
s = open(p).read()
b, e = "<!-- SEED-TABLE-BEGIN -->", "<!-- SEED-TABLE-END -->"
if b in s and e in s:
    s = s[: s.index(b) + len(b)] + "\n" + text + s[s.index(e):]
    open(p, "w").write(s)
print(summary)
