#!/usr/bin/env python3
"""Regenerate MANIFEST.json from the META of every harness/props/cXX.py and tools/not_applicable.json."""
import importlib, json, os, sys, re
from pathlib import Path
V = Path(__file__).resolve().parents[1]
sys.path.insert(0, str(V / "harness")); sys.path.insert(0, "/repo")
checks = []
ids = sorted(p.stem.upper() for p in (V / "harness/props").glob("c[0-9][0-9].py"))
for pid in ids:
    m = importlib.import_module(f"props.{pid.lower()}").META
    checks.append({
        "property_id": pid,
        "quick_cmd": f"./check {pid} --tier quick",
        "thorough_cmd": f"./check {pid} --tier thorough",
        "evidence_file": f"evidence/{pid}.json",
        "replay_cmd_template": f"./check {pid} --replay {{path}}",
        "engine": "lean4-proof+correspondence",
        "level_claimed": {"category": m["category"], "text": m["text"], "design_ref": m.get("design_ref", "DESIGN.md §5")},
        "level_note": m["level_note"],
        "technique": m["technique"],
    })
na_file = V / "tools/not_applicable.json"
na = json.loads(na_file.read_text()) if na_file.exists() else {}
all_ids = [json.loads(l)["id"] for l in (V / "properties.jsonl").read_text().splitlines() if l.strip()]
not_applicable = []
for pid in all_ids:
    if pid in ids:
        continue
    not_applicable.append({"property_id": pid, "reason": na.get(pid, "not yet built in this round: the Lean model and correspondence check for this property are planned in DESIGN.md §5 but no check is registered, so nothing is claimed")})
hooks = json.loads((V / "tools/hooks.json").read_text())
man = {
    "version": 1,
    "setup_cmd": "./tools/setup.sh",
    "hooks": hooks,
    "engines": [{"name": "lean4-proof+correspondence", "path": "lean/ + harness/", "serves_properties": ids,
                 "kind_free_text": "Lean 4 models and theorems (lean/XdslModel, lean/XdslProofs), tied to /repo on every run by a Python-AST→Lean translator (pure integer kernels) and by differential correspondence through the native line-protocol driver (lean/Driver.lean)"}],
    "checks": checks,
    "not_applicable": not_applicable,
    "notes": "Every check: (1) regenerates translated Lean definitions from /repo where a translator exists, (2) lake-builds the model, the property's proof modules and the driver, (3) audits axioms (⊆ propext, Classical.choice, Quot.sound; no sorry/native_decide), (4) runs the correspondence + direct property oracle on the real code, (5) writes evidence. Exit 2 = infrastructure/timeout, never a VIOLATION. See DESIGN.md.",
}
(V / "MANIFEST.json").write_text(json.dumps(man, indent=1) + "\n")
print("checks:", ids, "not_applicable:", len(not_applicable))
