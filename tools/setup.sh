#!/bin/sh
# MANIFEST.setup_cmd: build the framework offline from files on disk only.
set -e
HERE="$(cd "$(dirname "$0")/.." && pwd)"
cd "$HERE"
# 1. translated Lean definitions (regenerated from the current /repo on every check as well)
env PYTHONPATH="$HERE/harness" /venv/bin/python harness/translate/generate.py > /dev/null
# 2. models, generated kernels, proofs, both drivers
cd lean && lake build XdslModel XdslGen XdslProofs driver driver_gen
