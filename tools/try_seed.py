#!/usr/bin/env python3
"""tools/try_seed.py <seed_out_dir> <PROP> <name> [--tier quick] [--keep]
Confirm a seeded change (patch.diff + demo.py + meta.json) in a scratch worktree of /repo:
  1. demo passes on /repo, fails with the patch;  2. pinned suite still passes with the patch;
  3. run ./check PROP against the patched worktree (XDSL_REPO) and record whether it raises VIOLATION.
Then store it as /verif/seeded/<name>/ with the outcome in meta.json.  /repo itself is never touched."""
import json, os, shutil, subprocess, sys, time
src, prop, name = os.path.abspath(sys.argv[1]), sys.argv[2], sys.argv[3]
tier = "quick"
RECHECK = "--recheck" in sys.argv   # only re-run the check (demo/suite results kept from meta.json)
WT = os.environ.get("SEED_WT", "/tmp/seedeval_repo")
V = "/verif"
def sh(cmd, **kw):
    return subprocess.run(cmd, shell=True, capture_output=True, text=True, **kw)
if not os.path.isdir(WT):
    r = sh(f"git -C /repo worktree add --detach {WT} HEAD"); assert r.returncode == 0, r.stderr
sh(f"git -C {WT} checkout -q --detach $(git -C /repo rev-parse HEAD) && git -C {WT} checkout -- . && git -C {WT} clean -fdq")
r = sh(f"git -C {WT} apply {src}/patch.diff")
res = {"applies": r.returncode == 0}
if r.returncode != 0:
    print("PATCH DOES NOT APPLY:", r.stderr[:500]); sys.exit(2)
if RECHECK:
    old = json.load(open(os.path.join(src, "meta.json"))).get("confirmed", {})
    for k in ("demo_passes_on_repo", "demo_fails_with_patch", "suite_passes_with_patch"):
        res[k] = old.get(k)
else:
    d0 = sh(f"cd /tmp && PYTHONPATH=/repo /venv/bin/python {src}/demo.py", timeout=600)
    d1 = sh(f"cd /tmp && PYTHONPATH={WT} /venv/bin/python {src}/demo.py", timeout=600)
    res["demo_passes_on_repo"] = d0.returncode == 0
    res["demo_fails_with_patch"] = d1.returncode != 0
    b = sh(f"XDSL_REPO={WT} {V}/tools/baseline.py", timeout=1800)
    res["suite_passes_with_patch"] = "missing=0" in b.stdout
t0 = time.time()
c = sh(f"cd {V} && XDSL_REPO={WT} ./check {prop} --tier {tier}", timeout=3600)
res["check_exit"] = c.returncode
res["check_wall_s"] = round(time.time() - t0, 1)
res["violation_lines"] = [l for l in c.stdout.splitlines() if l.startswith("VIOLATION")][:10]
res["caught"] = c.returncode == 1 and bool(res["violation_lines"])
# replay descriptions
res["replays"] = []
for l in res["violation_lines"][:4]:
    p = l.split("replay=")[1].split()[0]
    try:
        rj = json.load(open(os.path.join(V, p)))
        res["replays"].append({"kind": rj["kind"], "call_site": rj["call_site"], "signature": rj["signature"], "description": (rj.get("description") or "")[:300]})
    except Exception as e:
        res["replays"].append(str(e))
sh(f"git -C {WT} checkout -- . && git -C {WT} clean -fdq")
dst = os.path.join(V, "seeded", name); os.makedirs(dst, exist_ok=True)
for f in ("patch.diff", "demo.py"):
    if os.path.abspath(os.path.join(src, f)) != os.path.abspath(os.path.join(dst, f)):
        shutil.copy2(os.path.join(src, f), dst)
meta = json.load(open(os.path.join(src, "meta.json"))) if os.path.exists(os.path.join(src, "meta.json")) else {}
meta.update({"property": prop, "confirmed": res, "ran": [f"demo.py on /repo and on patched worktree", "tools/baseline.py on patched worktree", f"./check {prop} --tier {tier} with XDSL_REPO=patched worktree"]})
json.dump(meta, open(os.path.join(dst, "meta.json"), "w"), indent=1)
print(json.dumps(res, indent=1))
print("SEED", name, "caught=", res["caught"], "demo_ok=", res["demo_passes_on_repo"] and res["demo_fails_with_patch"], "suite_ok=", res["suite_passes_with_patch"])
