#!/usr/bin/env python3
"""Run the pinned test suite of /repo and compare with /root/.vp/BASELINE.json (stable_pass).
Usage: tools/baseline.py [-k expr]   exit 0 iff every stable-pass test passed."""
import json, subprocess, sys, tempfile, xml.etree.ElementTree as ET, os
b = json.load(open("/root/.vp/BASELINE.json"))
with tempfile.TemporaryDirectory() as d:
    x = os.path.join(d, "r.xml")
    cmd = ["/venv/bin/python", "-m", "pytest", "-q", "-p", "no:cacheprovider", "--timeout=900",
           "--continue-on-collection-errors", f"--junitxml={x}", *sys.argv[1:]]
    env = dict(os.environ); env.pop("XDSL_VERIF_HOOKS", None); env["PYTHONPATH"] = os.environ.get("XDSL_REPO", "/repo")
    p = subprocess.run(cmd, cwd=os.environ.get("XDSL_REPO", "/repo"), capture_output=True, text=True, env=env)
    print(p.stdout[-600:])
    passed = set()
    for tc in ET.parse(x).getroot().iter("testcase"):
        if not any(c.tag in ("failure", "error", "skipped") for c in tc):
            passed.add(f"{tc.get('classname')}::{tc.get('name')}")
want = set(b["stable_pass"])
missing = sorted(want - passed)
print(f"stable_pass={len(want)} passed_now={len(passed)} missing={len(missing)}")
for m in missing[:40]:
    print("  MISSING", m)
sys.exit(1 if missing and len(sys.argv) == 1 else 0)
