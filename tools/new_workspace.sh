#!/bin/sh
# tools/new_workspace.sh <name>  — private build area for one property:
#   /tmp/build_<name>/verif  = copy of /verif (incl. lean/.lake build output)
#   /tmp/build_<name>/repo   = git worktree of /repo HEAD (for trying fixes; use XDSL_REPO=…)
set -e
N="$1"; D="/tmp/build_$N"
rm -rf "$D/verif"; mkdir -p "$D"
cp -r /verif "$D/verif"; rm -rf "$D/verif/.git"
if [ ! -d "$D/repo" ]; then git -C /repo worktree add --detach "$D/repo" HEAD >/dev/null 2>&1; fi
echo "$D"
