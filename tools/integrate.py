#!/usr/bin/env python3
"""tools/integrate.py <ID> : copy NEW files (not present in /verif) from /tmp/build_<ID>/verif for the
model/proof/harness directories, merge Registry lines and known_findings entries of that property.
Prints what it did; changed (pre-existing) files are listed but not copied."""
import sys, os, shutil, json, filecmp, re
pid = sys.argv[1]
W = f"/tmp/build_{pid}/verif"; V = "/verif"
dirs = ["lean/XdslModel", "lean/XdslProofs", "harness/props", "harness/corpus", "harness/vp", "harness/translate", "tools"]
new, changed = [], []
for d in dirs:
    for root, _, files in os.walk(os.path.join(W, d)):
        if "/Generated" in root or "__pycache__" in root: continue
        for f in files:
            src = os.path.join(root, f); rel = os.path.relpath(src, W); dst = os.path.join(V, rel)
            if not os.path.exists(dst):
                os.makedirs(os.path.dirname(dst), exist_ok=True); shutil.copy2(src, dst); new.append(rel)
            elif not filecmp.cmp(src, dst, shallow=False):
                changed.append(rel)
print("NEW:", *new, sep="\n  ")
print("CHANGED (not copied):", *changed, sep="\n  ")
# registry merge
wr = open(os.path.join(W, "lean/XdslModel/Registry.lean")).read().splitlines()
vr = open(os.path.join(V, "lean/XdslModel/Registry.lean")).read()
vl = vr.splitlines()
imports = [l for l in wr if l.startswith("import ") and l not in vl]
arms = [l for l in wr if re.match(r'\s*\| "', l) and l.strip() not in [x.strip() for x in vl]]
if imports or arms:
    out = []
    last_import = max(i for i, l in enumerate(vl) if l.startswith("import "))
    for i, l in enumerate(vl):
        if l.strip() == "| _ => none":
            out.extend(arms)
        out.append(l)
        if i == last_import:
            out.extend(imports)
    open(os.path.join(V, "lean/XdslModel/Registry.lean"), "w").write("\n".join(out) + "\n")
    print("REGISTRY +", imports, arms)
# known findings merge
wk = json.load(open(os.path.join(W, "known_findings.json")))["findings"]
vk = json.load(open(os.path.join(V, "known_findings.json")))
have = {(f["property"], f["call_site"], f["signature"], f["status"]) for f in vk["findings"]}
added = []
for f in wk:
    prop = f.get("property", "")
    if prop.upper().startswith(pid.upper()[:3]) and (prop, f["call_site"], f["signature"], f["status"]) not in have:
        vk["findings"].append(f); added.append((f["status"], f["call_site"], f["signature"]))
json.dump(vk, open(os.path.join(V, "known_findings.json"), "w"), indent=1)
print("KNOWN_FINDINGS +", *added, sep="\n  ")
