#!/bin/sh
# tools/multi_seed.sh <seeds> <check>…  — quick tier of the given checks for several VERIF_SEED values
# (flakiness / false-alarm hunt on the unchanged tree). Prints one line per run; VIOLATION lines are kept.
./tools/setup.sh > setup.log 2>&1 || { echo SETUP FAILED; tail -20 setup.log; exit 2; }
SEEDS="$1"; shift
for c in "$@"; do for s in $SEEDS; do
  out=$(VERIF_SEED=$s ./check $c --tier quick 2>&1); rc=$?
  echo "$c seed=$s rc=$rc $(echo "$out" | grep -c '^VIOLATION') violations"
  echo "$out" | grep '^VIOLATION\|INFRA' | head -5
  if [ $rc -ne 0 ]; then mkdir -p keep; cp -r replays keep/replays_$c_$s 2>/dev/null; fi
done; done
