#!/bin/sh
./tools/setup.sh > setup.log 2>&1 || { echo SETUP FAILED; tail -20 setup.log; exit 2; }
for c in "$@"; do /usr/bin/time -f "$c wall=%e s" ./check $c --tier thorough 2>&1 | tail -4; echo "rc($c)=$?"; done
