#!/usr/bin/env python3
# /tmp/kf.py ID PROP patchname=hash ... : merge PROP entries of workspace known_findings into /verif (new or changed), set commits
import sys,json
ID,P=sys.argv[1:3]; m=dict(a.split('=') for a in sys.argv[3:])
d=json.load(open('/verif/known_findings.json')); w=json.load(open(f'/tmp/build_{ID}/verif/known_findings.json'))['findings']
n=0
for e in w:
    if e['property']!=P: continue
    c=e.get('commit') or ''
    for k,v in m.items():
        if k in c: e['commit']=v
    hit=None
    for i,t in enumerate(d['findings']):
        if t['property']==P and t['call_site']==e['call_site'] and t['signature']==e['signature']:
            hit=i; break
    if hit is None:
        d['findings'].append(e); n+=1; print('+',e['status'],e['call_site'][-50:],'|',e['signature'][:70],'|',e.get('commit'))
    else:
        t=d['findings'][hit]
        if ("pending" in c and t["status"]=="known" and t.get("minimal_case")==e.get("minimal_case")) or (t["status"]==e["status"] and t!=e):
            d['findings'][hit]=e; n+=1; print('~',e['status'],e['call_site'][-50:],'|',e['signature'][:70],'|',e.get('commit'))
json.dump(d,open('/verif/known_findings.json','w'),indent=1); print('changed',n)
