#!/usr/bin/env python3
# /tmp/bullet.py ID Cxx : replace the §13.3 bullet of property Cxx in /verif/DESIGN.md by the workspace's
import sys,re
ID,P=sys.argv[1:3]
def split(path):
    s=open(path).read()
    a=s.index('### 13.3'); b=s.index('### 13.4')
    return s[:a], s[a:b], s[b:]
def bullets(sec):
    # returns list of (start,end) for top-level bullets
    idx=[m.start() for m in re.finditer(r'(?m)^\* \*\*', sec)]
    idx.append(len(sec))
    return [(idx[i],idx[i+1]) for i in range(len(idx)-1)]
def find(sec):
    for a,b in bullets(sec):
        if re.match(r'\* \*\*'+P+r'[ *]', sec[a:b]): return a,b
    return None
h,sec,t=split('/verif/DESIGN.md'); _,wsec,_=split(f'/tmp/build_{ID}/verif/DESIGN.md')
w=find(wsec); v=find(sec)
if not w: print('workspace has no bullet for',P); sys.exit(1)
wb=wsec[w[0]:w[1]].rstrip('\n')+'\n'
if wsec[w[0]:w[1]].endswith('\n\n'): wb+='\n'
if v:
    old=sec[v[0]:v[1]]
    tail='\n' if old.endswith('\n\n') else ''
    sec=sec[:v[0]]+wb.rstrip('\n')+'\n'+tail+sec[v[1]:]
    print(f'replaced {P} bullet: {len(old)} -> {len(wb)} chars')
else:
    sec=sec.rstrip('\n')+'\n'+wb+'\n'; print('appended bullet')
open('/verif/DESIGN.md','w').write(h+sec+t)
