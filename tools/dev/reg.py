#!/usr/bin/env python3
# /tmp/reg.py ID : merge Registry imports/arms (multi-line aware) and XdslProofs.lean imports from workspace
import sys,re
ID=sys.argv[1]; W=f'/tmp/build_{ID}/verif'
def merge_registry():
    ws=open(f'{W}/lean/XdslModel/Registry.lean').read(); vs=open('/verif/lean/XdslModel/Registry.lean').read()
    imps=[l for l in ws.split('\n') if l.startswith('import ') and l not in vs.split('\n')]
    # arms: from '  | "name"' to next '  | '
    arms=re.findall(r'(  \| "([^"]+)" =>.*?)(?=\n  \| )', ws, flags=re.S)
    add=[a for a,n in arms if f'| "{n}"' not in vs]
    if imps:
        lines=vs.split('\n'); li=max(i for i,l in enumerate(lines) if l.startswith('import '))
        lines[li+1:li+1]=imps; vs='\n'.join(lines)
    if add:
        vs=vs.replace('  | _ => none','\n'.join(add)+'\n  | _ => none')
    open('/verif/lean/XdslModel/Registry.lean','w').write(vs); print('registry +',imps,[a.split('=>')[0].strip() for a in add])
def merge_proofs():
    ws=open(f'{W}/lean/XdslProofs.lean').read().split('\n'); vs=open('/verif/lean/XdslProofs.lean').read().split('\n')
    new=[l for l in ws if l.startswith('import ') and l not in vs]
    for l in new:
        # insert after the preceding import of workspace that exists in vs
        i=ws.index(l); prev=None
        for k in range(i-1,-1,-1):
            if ws[k] in vs: prev=ws[k]; break
        j=vs.index(prev)+1 if prev else 0
        vs.insert(j,l)
    open('/verif/lean/XdslProofs.lean','w').write('\n'.join(vs)); print('proofs +',new)
merge_registry(); merge_proofs()
