#!/bin/sh
# $1 = worker index; processes every 4th job
i=0
while read mode src prop name; do
  i=$((i+1)); [ $((i % 4)) -eq $1 ] || continue
  if [ "$mode" = recheck ]; then extra=--recheck; else extra=; fi
  SEED_WT=/tmp/seedeval_repo_$1 /verif/tools/try_seed.py $src $prop $name $extra 2>&1 | grep "^SEED\|PATCH DOES NOT" 
done < /tmp/seedjobs.txt
