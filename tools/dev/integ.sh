#!/bin/bash
# /tmp/integ.sh ID file... : copy listed files from workspace; report if /verif version is newer than workspace creation
ID=$1; shift; W=/tmp/build_$ID/verif; wt=$(stat -c '%Y' $W/properties.jsonl)
for f in "$@"; do
  if [ -f /verif/$f ]; then ct=$(git -C /verif log --format='%ct' -1 -- $f); if [ "$ct" -gt "$wt" ]; then echo "!! $f changed in /verif after workspace creation ($(date -d @$ct +%H:%M) > $(date -d @$wt +%H:%M))"; continue; fi; fi
  mkdir -p /verif/$(dirname $f); cp $W/$f /verif/$f && echo "copied $f"
done
